import DynetxProofs.Lemmas.AddMany
import DynetxProofs.Lemmas.Snaps
import DynetxProofs.Q1
import DynetxProofs.Q2
import DynetxProofs.C18
/-
  C16: `to_directed` / `to_undirected`.
-/
namespace Dynetx

/-! ## A. list lemmas -/

theorem c16_mem_instants (tl : List Span) (x : Int) : x ∈ instants tl ↔ memTl tl x := by
  unfold instants memTl
  simp only [List.mem_flatMap, mem_irange]

/-- `eraseDups` of a sorted list is strictly sorted and has the same members -/
theorem c16_eraseDups_sorted (n : Nat) (l : List Int) (hn : l.length ≤ n) (hs : l.Pairwise (· ≤ ·)) :
    l.eraseDups.Pairwise (· < ·) := by
  induction n generalizing l with
  | zero =>
    have : l = [] := List.length_eq_zero_iff.mp (by omega)
    subst this; simp
  | succ n ih =>
    cases l with
    | nil => simp
    | cons a as =>
      rw [List.eraseDups_cons, List.pairwise_cons]
      rw [List.pairwise_cons] at hs
      constructor
      · intro b hb
        rw [List.mem_eraseDups, List.mem_filter] at hb
        have h1 := hs.1 b hb.1
        have h2 : b ≠ a := by simpa using hb.2
        omega
      · apply ih
        · have := List.length_filter_le (fun b => !b == a) as
          simp only [List.length_cons] at hn
          omega
        · exact hs.2.sublist List.filter_sublist

theorem c16_sortedSet (l : List Int) :
    (∀ x, x ∈ sortedSet l ↔ x ∈ l) ∧ (sortedSet l).Pairwise (· < ·) := by
  constructor
  · intro x
    unfold sortedSet
    rw [List.mem_eraseDups]
    exact (C18_sorted_perm l).mem_iff
  · exact c16_eraseDups_sorted _ _ (Nat.le_refl _) (C18_sorted_pairwise_le l)

theorem c16_canonAsc_tail {s : Span} {tl : List Span} (h : CanonAsc (s :: tl)) : CanonAsc tl := by
  cases tl with
  | nil => trivial
  | cons r rest => exact h.2.2

theorem c16_canonAsc_head_le {s : Span} {tl : List Span} (h : CanonAsc (s :: tl)) : s.1 ≤ s.2 := by
  cases tl with
  | nil => exact h
  | cons r rest => exact h.1

theorem c16_canonAsc_all_le {tl : List Span} (h : CanonAsc tl) : ∀ r ∈ tl, r.1 ≤ r.2 := by
  induction tl with
  | nil => intro r hr; cases hr
  | cons s rest ih =>
    intro r hr
    rcases List.mem_cons.mp hr with rfl | hr'
    · exact c16_canonAsc_head_le h
    · exact ih (c16_canonAsc_tail h) r hr'

/-- in an ascending canonical list every later run starts after the end of every earlier one
    (so starts, and ends, are strictly increasing) -/
theorem c16_canonAsc_pairwise {tl : List Span} (h : CanonAsc tl) :
    tl.Pairwise (fun r s => r.2 + 1 < s.1) := by
  induction tl with
  | nil => exact List.Pairwise.nil
  | cons s rest ih =>
    rw [List.pairwise_cons]
    refine ⟨?_, ih (c16_canonAsc_tail h)⟩
    cases rest with
    | nil => intro r hr; cases hr
    | cons q rest' =>
      intro r hr
      have hq : s.2 + 1 < q.1 := h.2.1
      rcases List.mem_cons.mp hr with rfl | hr'
      · exact hq
      · have h1 := (List.pairwise_cons.mp (ih h.2.2)).1 r hr'
        have h2 := c16_canonAsc_head_le h.2.2
        omega

theorem c16_canonAsc_starts {tl : List Span} (h : CanonAsc tl) :
    tl.Pairwise (fun r s => r.1 < s.1) := by
  have h1 := c16_canonAsc_pairwise h
  have h2 := c16_canonAsc_all_le h
  induction tl with
  | nil => exact List.Pairwise.nil
  | cons s rest ih =>
    rw [List.pairwise_cons] at h1 ⊢
    refine ⟨?_, ih (c16_canonAsc_tail h) h1.2 (fun r hr => h2 r (List.mem_cons_of_mem _ hr))⟩
    intro r hr
    have := h1.1 r hr
    have := h2 s List.mem_cons_self
    omega

/-- the worker of `runsOf`, started with an open run `[a,b]` below the remaining strictly increasing list -/
theorem c16_runsGo_some (xs : List Int) : ∀ (a b : Int), a ≤ b → (∀ y ∈ xs, b < y) → xs.Pairwise (· < ·) →
    ∃ b' rest, runsGo (some (a, b)) xs = (a, b') :: rest ∧ CanonAsc ((a, b') :: rest) ∧
      ∀ x, memTl ((a, b') :: rest) x ↔ ((a ≤ x ∧ x ≤ b) ∨ x ∈ xs) := by
  induction xs with
  | nil =>
    intro a b hab _ _
    refine ⟨b, [], rfl, hab, ?_⟩
    intro x
    rw [memTl_cons]
    simp [memTl_nil]
  | cons y ys ih =>
    intro a b hab hlt hp
    rw [List.pairwise_cons] at hp
    have hby : b < y := hlt y List.mem_cons_self
    by_cases hy : y = b + 1
    · obtain ⟨b', rest, h1, h2, h3⟩ := ih a y (by omega) hp.1 hp.2
      refine ⟨b', rest, ?_, h2, ?_⟩
      · simp only [runsGo, hy, beq_self_eq_true, if_true]
        rw [← hy]; exact h1
      · intro x
        rw [h3, List.mem_cons]
        constructor
        · rintro (⟨h4, h5⟩ | h4)
          · by_cases hx : x = y
            · exact Or.inr (Or.inl hx)
            · exact Or.inl ⟨h4, by omega⟩
          · exact Or.inr (Or.inr h4)
        · rintro (⟨h4, h5⟩ | h4 | h4)
          · exact Or.inl ⟨h4, by omega⟩
          · exact Or.inl ⟨by omega, by omega⟩
          · exact Or.inr h4
    · obtain ⟨b', rest, h1, h2, h3⟩ := ih y y (Int.le_refl _) hp.1 hp.2
      have hne : (y == b + 1) = false := by simpa using hy
      refine ⟨b, (y, b') :: rest, ?_, ?_, ?_⟩
      · simp only [runsGo, hne, Bool.false_eq_true, if_false]
        rw [h1]
      · exact ⟨hab, by show b + 1 < y; omega, h2⟩
      · intro x
        rw [memTl_cons, h3, List.mem_cons]
        constructor
        · rintro (h4 | ⟨h4, h5⟩ | h4)
          · exact Or.inl h4
          · exact Or.inr (Or.inl (by omega))
          · exact Or.inr (Or.inr h4)
        · rintro (h4 | h4 | h4)
          · exact Or.inl h4
          · exact Or.inr (Or.inl ⟨by omega, by omega⟩)
          · exact Or.inr (Or.inr h4)

/-- `runsOf` on a strictly increasing list: canonical ascending runs whose union is the list -/
theorem c16_runsOf_spec (l : List Int) (hl : l.Pairwise (· < ·)) :
    CanonAsc (runsOf l) ∧ ∀ x, memTl (runsOf l) x ↔ x ∈ l := by
  cases l with
  | nil => exact ⟨trivial, fun x => by simp [runsOf, runsGo, memTl_nil]⟩
  | cons y ys =>
    rw [List.pairwise_cons] at hl
    obtain ⟨b', rest, h1, h2, h3⟩ := c16_runsGo_some ys y y (Int.le_refl _) hl.1 hl.2
    have : runsOf (y :: ys) = (y, b') :: rest := by
      unfold runsOf; simp only [runsGo]; exact h1
    rw [this]
    refine ⟨h2, ?_⟩
    intro x
    rw [h3, List.mem_cons]
    constructor
    · rintro (h4 | h4)
      · exact Or.inl (by omega)
      · exact Or.inr h4
    · rintro (h4 | h4)
      · exact Or.inl ⟨by omega, by omega⟩
      · exact Or.inr h4

theorem c16_runsOf (l : List Int) (hl : l.Pairwise (· < ·)) :
    (∀ x, (∃ r ∈ runsOf l, r.1 ≤ x ∧ x ≤ r.2) ↔ x ∈ l) ∧
    (∀ r ∈ runsOf l, r.1 ≤ r.2) ∧
    CanonAsc (runsOf l) ∧
    (runsOf l).Pairwise (fun r s => r.1 < s.1) := by
  obtain ⟨h1, h2⟩ := c16_runsOf_spec l hl
  exact ⟨h2, c16_canonAsc_all_le h1, h1, c16_canonAsc_starts h1⟩

/-! ## shared: calls built from a list of `(u, v, ascending timeline)` -/

/-- one call `(u, v, a, b + 1)` per exposed interval `(a, b)` -/
def c16_callsOf (d : List (Node × Node × List Span)) : List Call4 :=
  d.flatMap (fun p => p.2.2.map (fun s => (p.1, p.2.1, s.1, some (s.2 + 1))))

theorem c16_inCalls_callsOf (dir : Bool) (d : List (Node × Node × List Span))
    (hne : ∀ p ∈ d, ∀ s ∈ p.2.2, s.1 ≤ s.2) (a b : Node) (x : Int) :
    inCalls dir (c16_callsOf d) a b x ↔
      ∃ p ∈ d, sameKey dir p.1 p.2.1 a b = true ∧ memTl p.2.2 x := by
  unfold inCalls c16_callsOf
  constructor
  · rintro ⟨c, hc, hk, t1, hsp, h1, h2⟩
    obtain ⟨p, hp, hc'⟩ := List.mem_flatMap.mp hc
    obtain ⟨s, hs, rfl⟩ := List.mem_map.mp hc'
    simp only at hk hsp h1 h2
    have hle := hne p hp s hs
    have : t1 = s.2 := by
      unfold spanEnd at hsp
      simp only at hsp
      split at hsp
      · cases hsp
      · injection hsp with hsp; omega
    subst this
    exact ⟨p, hp, hk, s, hs, h1, h2⟩
  · rintro ⟨p, hp, hk, s, hs, h1, h2⟩
    refine ⟨(p.1, p.2.1, s.1, some (s.2 + 1)),
      List.mem_flatMap.mpr ⟨p, hp, List.mem_map.mpr ⟨s, hs, rfl⟩⟩, hk, s.2, ?_, h1, h2⟩
    have hle := hne p hp s hs
    show spanEnd s.1 (some (s.2 + 1)) = some s.2
    unfold spanEnd
    simp only
    rw [if_neg (by omega)]
    congr 1; omega

theorem c16_callsSorted_callsOf (dir : Bool) (d : List (Node × Node × List Span))
    (hk : d.Pairwise (fun p q => ¬ (sameKey dir p.1 p.2.1 q.1 q.2.1 = true)))
    (hc : ∀ p ∈ d, CanonAsc p.2.2) : CallsSorted dir (c16_callsOf d) := by
  unfold CallsSorted c16_callsOf
  rw [List.pairwise_flatMap]
  constructor
  · intro p hp
    rw [List.pairwise_map]
    exact (c16_canonAsc_starts (hc p hp)).imp (by intro a b hlt _; exact Int.le_of_lt hlt)
  · refine hk.imp ?_
    intro p q hpq c1 hc1 c2 hc2 hkey
    obtain ⟨s1, _, rfl⟩ := List.mem_map.mp hc1
    obtain ⟨s2, _, rfl⟩ := List.mem_map.mp hc2
    exact absurd hkey hpq

/-- the common tail of both constructors: sorted calls on a fresh graph, then nodes and graph
    attributes are put in place -/
theorem c16_build (dir : Bool) (nodes0 nodes : List (Node × Nat)) (gattr : Nat) (calls : List Call4)
    (hs : CallsSorted dir calls) :
    ∃ H : Graph,
      (match ({ Graph.empty dir true with nodes := nodes0 } : Graph).addMany calls with
        | (_, some e) => (Except.error e : Except Err Graph)
        | (h, none) => .ok { h with nodes := nodes, gattr := gattr }) = .ok H ∧
      H.directed = dir ∧ H.removal = true ∧ WF H ∧ H.nodes = nodes ∧ H.gattr = gattr ∧
      ∀ a b x, H.hasInteraction a b (some x) = true ↔ inCalls dir calls a b x := by
  obtain ⟨h1, h2, h3, h4, h5⟩ :=
    addMany_fresh ({ Graph.empty dir true with nodes := nodes0 } : Graph) rfl rfl calls hs
  rcases hres : ({ Graph.empty dir true with nodes := nodes0 } : Graph).addMany calls with ⟨h', o⟩
  rw [hres] at h1 h2 h3 h4 h5
  simp only at h1 h2 h3 h4 h5
  subst h1
  refine ⟨{ h' with nodes := nodes, gattr := gattr }, rfl, h4, h3, wf_congr h2 rfl rfl, rfl, rfl, ?_⟩
  intro a b x
  have hc := hasInteraction_congr (g := h') (g' := { h' with nodes := nodes, gattr := gattr })
    rfl rfl h3 h3 a b (some x)
  rw [hc]
  exact h5 a b x

theorem c16_timeline_canon {g : Graph} (h : WF g) (u v : Node) :
    CanonAsc ((g.timeline u v).getD []) := by
  unfold Graph.timeline
  cases hf : g.findEdge u v with
  | none => exact trivial
  | some e => exact (h.tl e (findEdge_some hf).1).2.reverse

theorem c16_timeline_mem {g : Graph} (h : WF g) (hr : g.removal = true) (u v : Node) (x : Int) :
    memTl ((g.timeline u v).getD []) x ↔ g.hasInteraction u v (some x) = true := by
  unfold Graph.timeline Graph.hasInteraction
  cases hf : g.findEdge u v with
  | none => simp [memTl_nil]
  | some e =>
    simp only [Option.map_some, Option.getD_some]
    rw [memTl_reverse, presenceTest_iff g hr e.tl (h.tl e (findEdge_some hf).1).2]

theorem c16_nodeInv_q2 {g : Graph} (hn : NodeInv g) : q2_NodeInv g := ⟨hn.endpoints, hn.nodup⟩

/-- an exposed timeline of a well-formed graph is canonical (as in `C03_history`) -/
theorem c16_wf_timeline_canon {g : Graph} (h : WF g) (u v : Node) (tl : List Span)
    (ht : g.timeline u v = some tl) : CanonAsc tl := by
  have := c16_timeline_canon h u v
  rw [ht] at this
  exact this

/-! ## B. `to_directed` -/

theorem c16_toDirected_eq (g : Graph) :
    g.toDirected =
      (match ({ Graph.empty true true with nodes := g.nodes.map (fun (p : Node × Nat) => (p.1, 0)) } : Graph).addMany
          (c16_callsOf g.interactionsData) with
        | (_, some e) => (Except.error e : Except Err Graph)
        | (h, none) => .ok { h with nodes := g.nodes, gattr := g.gattr }) := rfl

theorem c16_toDirected_core {g : Graph} (h : WF g) (hr : g.removal = true) (hn : NodeInv g) :
    ∃ H, g.toDirected = .ok H ∧ H.directed = true ∧ H.removal = true ∧ WF H ∧ H.nodes = g.nodes ∧
      H.gattr = g.gattr ∧
      ∀ u v x, H.hasInteraction u v (some x) = true ↔
        ((u, v) ∈ g.interactions none none ∧ g.hasInteraction u v (some x) = true) := by
  have hn2 := c16_nodeInv_q2 hn
  have hcanon : ∀ p ∈ g.interactionsData, CanonAsc p.2.2 := by
    intro p hp
    obtain ⟨q, _, rfl⟩ := List.mem_map.mp hp
    exact c16_timeline_canon h _ _
  have hsorted : CallsSorted true (c16_callsOf g.interactionsData) := by
    refine c16_callsSorted_callsOf true _ ?_ hcanon
    unfold Graph.interactionsData
    rw [List.pairwise_map]
    refine (C02_interactions_once h hn2 none).imp ?_
    intro p q hpq hk
    apply hpq
    simp only [sameKey] at hk ⊢
    simp only [Bool.not_true, Bool.false_and, Bool.or_false] at hk
    simp [hk]
  obtain ⟨H, hH, h1, h2, h3, h4, h5, h6⟩ :=
    c16_build true (g.nodes.map (fun (p : Node × Nat) => (p.1, 0))) g.nodes g.gattr _ hsorted
  refine ⟨H, by rw [c16_toDirected_eq]; exact hH, h1, h2, h3, h4, h5, ?_⟩
  intro u v x
  rw [h6, c16_inCalls_callsOf true _ (fun p hp => c16_canonAsc_all_le (hcanon p hp))]
  constructor
  · rintro ⟨p, hp, hk, hm⟩
    obtain ⟨q, hq, rfl⟩ := List.mem_map.mp hp
    simp only at hk hm
    rw [sameKey_directed_iff] at hk
    obtain ⟨rfl, rfl⟩ := hk
    exact ⟨hq, (c16_timeline_mem h hr _ _ x).mp hm⟩
  · rintro ⟨hm, hx⟩
    exact ⟨(u, v, (g.timeline u v).getD []), List.mem_map.mpr ⟨(u, v), hm, rfl⟩, sameKey_refl _ _ _,
      (c16_timeline_mem h hr u v x).mpr hx⟩

/-- `to_directed()` raises nothing and returns a well-formed directed graph on the same nodes -/
theorem C16_toDirected_ok {g : Graph} (h : WF g) (hr : g.removal = true) (_hd : g.directed = false)
    (hn : NodeInv g) :
    ∃ H, g.toDirected = .ok H ∧ H.directed = true ∧ H.removal = true ∧ WF H ∧ H.nodes = g.nodes ∧
      H.gattr = g.gattr := by
  obtain ⟨H, h0, h1, h2, h3, h4, h5, _⟩ := c16_toDirected_core h hr hn
  exact ⟨H, h0, h1, h2, h3, h4, h5⟩

/-- known finding D12: only the orientation under which `interactions_iter` yields the pair is created -/
theorem C16_toDirected_presence_partial {g : Graph} (h : WF g) (hr : g.removal = true)
    (_hd : g.directed = false) (hn : NodeInv g) {H : Graph} (hH : g.toDirected = .ok H) :
    ∀ u v x, H.hasInteraction u v (some x) = true ↔
      ((u, v) ∈ g.interactions none none ∧ g.hasInteraction u v (some x) = true) := by
  obtain ⟨H', h0, _, _, _, _, _, h6⟩ := c16_toDirected_core h hr hn
  rw [hH] at h0
  injection h0 with h0
  subst h0
  exact h6

theorem C16_toDirected_sound {g : Graph} (h : WF g) (hr : g.removal = true)
    (hd : g.directed = false) (hn : NodeInv g) {H : Graph} (hH : g.toDirected = .ok H) (u v : Node) (x : Int)
    (hp : H.hasInteraction u v (some x) = true) : g.hasInteraction u v (some x) = true :=
  ((C16_toDirected_presence_partial h hr hd hn hH u v x).mp hp).2

theorem C16_toDirected_some_orientation {g : Graph} (h : WF g) (hr : g.removal = true)
    (hd : g.directed = false) (hn : NodeInv g) {H : Graph} (hH : g.toDirected = .ok H) (u v : Node) (x : Int)
    (hp : g.hasInteraction u v (some x) = true) :
    H.hasInteraction u v (some x) = true ∨ H.hasInteraction v u (some x) = true := by
  have hflat : g.hasInteraction u v none = true := q2_flat_of_has hp
  rcases C02_interactions_complete (c16_nodeInv_q2 hn) hd none u v hflat with h1 | h1
  · exact Or.inl ((C16_toDirected_presence_partial h hr hd hn hH u v x).mpr ⟨h1, hp⟩)
  · exact Or.inr ((C16_toDirected_presence_partial h hr hd hn hH v u x).mpr
      ⟨h1, by rw [q2_has_symm hd]; exact hp⟩)

/-- never both orientations (for `u ≠ v`): the result is not the symmetric digraph -/
theorem C16_toDirected_not_both {g : Graph} (h : WF g) (hr : g.removal = true)
    (hd : g.directed = false) (hn : NodeInv g) {H : Graph} (hH : g.toDirected = .ok H) (u v : Node) (x y : Int)
    (huv : u ≠ v) (h1 : H.hasInteraction u v (some x) = true) : H.hasInteraction v u (some y) = false := by
  cases h2 : H.hasInteraction v u (some y) with
  | false => rfl
  | true =>
    have m1 := ((C16_toDirected_presence_partial h hr hd hn hH u v x).mp h1).1
    have m2 := ((C16_toDirected_presence_partial h hr hd hn hH v u y).mp h2).1
    have hne : (u, v) ≠ (v, u) := by
      intro hc; injection hc with e1 _; exact huv e1
    rcases q2_pairwise_both (C02_interactions_once h (c16_nodeInv_q2 hn) none) m1 m2 hne with h3 | h3
    · exact absurd (by simp [sameKey]) h3
    · exact absurd (by simp [sameKey]) h3

/-- the single undirected interaction 1–2 on [0,1] -/
def c16_exD12 : Graph := ((Graph.empty false true).addInteraction 1 2 (some 0) (some 2)).1

/-- known finding D12 -/
theorem C16_toDirected_D12_witness :
    c16_exD12.hasInteraction 2 1 (some 0) = true ∧
    (c16_exD12.toDirected.toOption.map
      (fun H => (H.hasInteraction 1 2 (some 0), H.hasInteraction 2 1 (some 0), H.hasInteraction 2 1 none))) =
      some (true, false, false) := by decide

/-! ## C. `to_undirected` -/

def c16_inst (g : Graph) (u v : Node) : List Int := instants ((g.timeline u v).getD [])

def c16_merged (g : Graph) (recip : Bool) (u v : Node) : List Int :=
  sortedSet (if recip then (c16_inst g u v).filter (fun x => (c16_inst g v u).contains x)
             else c16_inst g u v ++ c16_inst g v u)

def c16_data (g : Graph) (pairs : List (Node × Node)) : List (Node × Node × List Span) :=
  pairs.map (fun p => (p.1, p.2, ((g.timeline p.1 p.2).getD [])))

theorem c16_mergedGo_cons (g : Graph) (recip : Bool) (u v : Node) (pairs : List (Node × Node))
    (acc : List (Node × Node × List Int)) :
    mergedGo g recip (c16_data g ((u, v) :: pairs)) acc =
      if acc.any (fun q => q.1 == v && q.2.1 == u) then mergedGo g recip (c16_data g pairs) acc
      else mergedGo g recip (c16_data g pairs) (acc ++ [(u, v, c16_merged g recip u v)]) := rfl

structure c16_MergedOk (g : Graph) (recip : Bool) (pairs : List (Node × Node))
    (acc R : List (Node × Node × List Int)) : Prop where
  keys : R.Pairwise (fun p q => ¬ (sameKey false p.1 p.2.1 q.1 q.2.1 = true))
  entry : ∀ q ∈ R, q ∈ acc ∨ ((q.1, q.2.1) ∈ pairs ∧ q.2.2 = c16_merged g recip q.1 q.2.1)
  mono : ∀ q ∈ acc, q ∈ R
  complete : ∀ p ∈ pairs, ∃ q ∈ R, sameKey false q.1 q.2.1 p.1 p.2 = true

theorem c16_mergedGo_spec (g : Graph) (recip : Bool) (pairs : List (Node × Node)) :
    ∀ acc : List (Node × Node × List Int),
      acc.Pairwise (fun p q => ¬ (sameKey false p.1 p.2.1 q.1 q.2.1 = true)) → pairs.Nodup →
      (∀ p ∈ pairs, ∀ q ∈ acc, ¬ (q.1 = p.1 ∧ q.2.1 = p.2)) →
      c16_MergedOk g recip pairs acc (mergedGo g recip (c16_data g pairs) acc) := by
  induction pairs with
  | nil =>
    intro acc hacc _ _
    exact ⟨hacc, fun q hq => Or.inl hq, fun q hq => hq, fun p hp => nomatch hp⟩
  | cons p rest ih =>
    obtain ⟨u, v⟩ := p
    intro acc hacc hnd h3
    rw [List.nodup_cons] at hnd
    rw [c16_mergedGo_cons]
    by_cases hany : acc.any (fun q => q.1 == v && q.2.1 == u) = true
    · rw [if_pos hany]
      have ok := ih acc hacc hnd.2 (fun p hp q hq => h3 p (List.mem_cons_of_mem _ hp) q hq)
      refine ⟨ok.keys, ?_, ok.mono, ?_⟩
      · intro q hq
        rcases ok.entry q hq with h4 | ⟨h4, h5⟩
        · exact Or.inl h4
        · exact Or.inr ⟨List.mem_cons_of_mem _ h4, h5⟩
      · intro p hp
        rcases List.mem_cons.mp hp with rfl | hp'
        · obtain ⟨q, hq, hqk⟩ := List.any_eq_true.mp hany
          refine ⟨q, ok.mono q hq, ?_⟩
          simp only [Bool.and_eq_true, beq_iff_eq] at hqk
          simp [sameKey, hqk.1, hqk.2]
        · exact ok.complete p hp'
    · rw [if_neg hany]
      have hacc' : (acc ++ [(u, v, c16_merged g recip u v)]).Pairwise
          (fun p q => ¬ (sameKey false p.1 p.2.1 q.1 q.2.1 = true)) := by
        rw [List.pairwise_append]
        refine ⟨hacc, List.pairwise_singleton _ _, ?_⟩
        intro q hq n hn
        rw [List.mem_singleton] at hn; subst hn
        intro hk
        simp only [sameKey, Bool.not_false, Bool.true_and, Bool.or_eq_true, Bool.and_eq_true,
          beq_iff_eq] at hk
        rcases hk with hk | hk
        · exact h3 (u, v) List.mem_cons_self q hq hk
        · apply hany
          exact List.any_eq_true.mpr ⟨q, hq, by simp [hk.1, hk.2]⟩
      have h3' : ∀ p ∈ rest, ∀ q ∈ acc ++ [(u, v, c16_merged g recip u v)], ¬ (q.1 = p.1 ∧ q.2.1 = p.2) := by
        intro p hp q hq
        rcases List.mem_append.mp hq with hq | hq
        · exact h3 p (List.mem_cons_of_mem _ hp) q hq
        · rw [List.mem_singleton] at hq; subst hq
          rintro ⟨e1, e2⟩
          simp only at e1 e2
          apply hnd.1
          have : p = (u, v) := Prod.ext e1.symm e2.symm
          rw [← this]; exact hp
      have ok := ih _ hacc' hnd.2 h3'
      have hnew : (u, v, c16_merged g recip u v) ∈ mergedGo g recip (c16_data g rest)
          (acc ++ [(u, v, c16_merged g recip u v)]) :=
        ok.mono _ (List.mem_append_right _ (List.mem_singleton.mpr rfl))
      refine ⟨ok.keys, ?_, fun q hq => ok.mono q (List.mem_append_left _ hq), ?_⟩
      · intro q hq
        rcases ok.entry q hq with h4 | ⟨h4, h5⟩
        · rcases List.mem_append.mp h4 with h4 | h4
          · exact Or.inl h4
          · rw [List.mem_singleton] at h4; subst h4
            exact Or.inr ⟨List.mem_cons_self, rfl⟩
        · exact Or.inr ⟨List.mem_cons_of_mem _ h4, h5⟩
      · intro p hp
        rcases List.mem_cons.mp hp with rfl | hp'
        · exact ⟨_, hnew, sameKey_refl _ _ _⟩
        · exact ok.complete p hp'

theorem c16_mem_inst {g : Graph} (h : WF g) (hr : g.removal = true) (u v : Node) (x : Int) :
    x ∈ c16_inst g u v ↔ g.hasInteraction u v (some x) = true := by
  unfold c16_inst
  rw [c16_mem_instants, c16_timeline_mem h hr]

theorem c16_mem_merged_false {g : Graph} (h : WF g) (hr : g.removal = true) (u v : Node) (x : Int) :
    x ∈ c16_merged g false u v ↔
      (g.hasInteraction u v (some x) = true ∨ g.hasInteraction v u (some x) = true) := by
  unfold c16_merged
  rw [(c16_sortedSet _).1]
  simp only [Bool.false_eq_true, if_false, List.mem_append, c16_mem_inst h hr]

theorem c16_mem_merged_true {g : Graph} (h : WF g) (hr : g.removal = true) (u v : Node) (x : Int) :
    x ∈ c16_merged g true u v ↔
      (g.hasInteraction u v (some x) = true ∧ g.hasInteraction v u (some x) = true) := by
  unfold c16_merged
  rw [(c16_sortedSet _).1]
  simp only [if_true, List.mem_filter, List.contains_eq_mem, decide_eq_true_eq, c16_mem_inst h hr]

theorem c16_toUndirected_eq (g : Graph) (recip : Bool) :
    g.toUndirected recip =
      (match ({ Graph.empty false true with nodes := g.nodes.map (fun (p : Node × Nat) => (p.1, 0)) } : Graph).addMany
          (c16_callsOf ((mergedGo g recip (c16_data g (g.outInteractions none none)) []).map
            (fun q => (q.1, q.2.1, runsOf q.2.2)))) with
        | (_, some e) => (Except.error e : Except Err Graph)
        | (h, none) => .ok { h with nodes := g.nodes, gattr := g.gattr }) := by
  unfold Graph.toUndirected c16_callsOf
  simp only [List.flatMap_map]
  rfl

/-- everything about `to_undirected`, with presence stated through the `merged` dictionary -/
theorem c16_toUndirected_core {g : Graph} (h : WF g) (hn : NodeInv g) (recip : Bool)
    (P : Node → Node → Int → Prop) (hP : ∀ u v x, x ∈ c16_merged g recip u v ↔ P u v x)
    (hsym : ∀ u v x, P u v x → P v u x)
    (hflat : ∀ u v x, P u v x → g.hasInteraction u v none = true ∨ g.hasInteraction v u none = true) :
    ∃ H, g.toUndirected recip = .ok H ∧ H.directed = false ∧ H.removal = true ∧ WF H ∧
      H.nodes = g.nodes ∧ H.gattr = g.gattr ∧
      ∀ u v x, H.hasInteraction u v (some x) = true ↔ P u v x := by
  have hn2 := c16_nodeInv_q2 hn
  have ok := c16_mergedGo_spec g recip (g.outInteractions none none) [] List.Pairwise.nil
    (C02_outInteractions_nodup h hn2 none) (fun _ _ q hq => nomatch hq)
  generalize hm : mergedGo g recip (c16_data g (g.outInteractions none none)) [] = m at ok
  have hentry : ∀ q ∈ m, (q.1, q.2.1) ∈ g.outInteractions none none ∧
      q.2.2 = c16_merged g recip q.1 q.2.1 := by
    intro q hq
    rcases ok.entry q hq with h1 | h1
    · cases h1
    · exact h1
  have hstrict : ∀ q ∈ m, q.2.2.Pairwise (· < ·) := by
    intro q hq
    rw [(hentry q hq).2]
    exact (c16_sortedSet _).2
  have hcanon : ∀ p ∈ m.map (fun q => (q.1, q.2.1, runsOf q.2.2)), CanonAsc p.2.2 := by
    intro p hp
    obtain ⟨q, hq, rfl⟩ := List.mem_map.mp hp
    exact (c16_runsOf_spec _ (hstrict q hq)).1
  have hsorted : CallsSorted false (c16_callsOf (m.map (fun q => (q.1, q.2.1, runsOf q.2.2)))) := by
    refine c16_callsSorted_callsOf false _ ?_ hcanon
    rw [List.pairwise_map]
    exact ok.keys
  obtain ⟨H, hH, h1, h2, h3, h4, h5, h6⟩ :=
    c16_build false (g.nodes.map (fun (p : Node × Nat) => (p.1, 0))) g.nodes g.gattr _ hsorted
  refine ⟨H, by rw [c16_toUndirected_eq, hm]; exact hH, h1, h2, h3, h4, h5, ?_⟩
  intro a b x
  rw [h6, c16_inCalls_callsOf false _ (fun p hp => c16_canonAsc_all_le (hcanon p hp))]
  constructor
  · rintro ⟨p, hp, hk, hmem⟩
    obtain ⟨q, hq, rfl⟩ := List.mem_map.mp hp
    simp only at hk hmem
    rw [(c16_runsOf_spec _ (hstrict q hq)).2, (hentry q hq).2, hP] at hmem
    simp only [sameKey, Bool.not_false, Bool.true_and, Bool.or_eq_true, Bool.and_eq_true,
      beq_iff_eq] at hk
    rcases hk with ⟨e1, e2⟩ | ⟨e1, e2⟩
    · rw [← e1, ← e2]; exact hmem
    · rw [← e1, ← e2]; exact hsym _ _ _ hmem
  · intro hp
    have key : ∀ u v, P u v x → g.hasInteraction u v none = true →
        ∃ p ∈ m.map (fun q => (q.1, q.2.1, runsOf q.2.2)),
          sameKey false p.1 p.2.1 u v = true ∧ memTl p.2.2 x := by
      intro u v hpuv hf
      have hmem : (u, v) ∈ g.outInteractions none none := (C02_outInteractions_directed hn2 none u v).mpr hf
      obtain ⟨q, hq, hk⟩ := ok.complete (u, v) hmem
      refine ⟨(q.1, q.2.1, runsOf q.2.2), List.mem_map.mpr ⟨q, hq, rfl⟩, hk, ?_⟩
      show memTl (runsOf q.2.2) x
      rw [(c16_runsOf_spec _ (hstrict q hq)).2, (hentry q hq).2, hP]
      simp only [sameKey, Bool.not_false, Bool.true_and, Bool.or_eq_true, Bool.and_eq_true,
        beq_iff_eq] at hk
      rcases hk with ⟨e1, e2⟩ | ⟨e1, e2⟩
      · rw [e1, e2]; exact hpuv
      · rw [e1, e2]; exact hsym _ _ _ hpuv
    rcases hflat a b x hp with hf | hf
    · exact key a b hp hf
    · obtain ⟨p, hp1, hk, hm2⟩ := key b a (hsym _ _ _ hp) hf
      exact ⟨p, hp1, by rw [sameKey_swap_undirected]; exact hk, hm2⟩

theorem c16_toUndirected_false {g : Graph} (h : WF g) (hr : g.removal = true) (hn : NodeInv g) :
    ∃ H, g.toUndirected false = .ok H ∧ H.directed = false ∧ H.removal = true ∧ WF H ∧
      H.nodes = g.nodes ∧ H.gattr = g.gattr ∧
      ∀ u v x, H.hasInteraction u v (some x) = true ↔
        (g.hasInteraction u v (some x) = true ∨ g.hasInteraction v u (some x) = true) :=
  c16_toUndirected_core h hn false _ (fun u v x => c16_mem_merged_false h hr u v x)
    (fun _ _ _ hp => hp.symm)
    (fun _ _ _ hp => hp.imp q2_flat_of_has q2_flat_of_has)

theorem c16_toUndirected_true {g : Graph} (h : WF g) (hr : g.removal = true) (hn : NodeInv g) :
    ∃ H, g.toUndirected true = .ok H ∧ H.directed = false ∧ H.removal = true ∧ WF H ∧
      H.nodes = g.nodes ∧ H.gattr = g.gattr ∧
      ∀ u v x, H.hasInteraction u v (some x) = true ↔
        (g.hasInteraction u v (some x) = true ∧ g.hasInteraction v u (some x) = true) :=
  c16_toUndirected_core h hn true _ (fun u v x => c16_mem_merged_true h hr u v x)
    (fun _ _ _ hp => hp.symm)
    (fun _ _ _ hp => Or.inl (q2_flat_of_has hp.1))

/-- `to_undirected(reciprocal)` raises nothing and returns a well-formed undirected graph on the same nodes -/
theorem C16_toUndirected_ok {g : Graph} (h : WF g) (hr : g.removal = true) (_hd : g.directed = true)
    (hn : NodeInv g) (recip : Bool) :
    ∃ H, g.toUndirected recip = .ok H ∧ H.directed = false ∧ H.removal = true ∧ WF H ∧
      H.nodes = g.nodes ∧ H.gattr = g.gattr := by
  cases recip with
  | false =>
    obtain ⟨H, h0, h1, h2, h3, h4, h5, _⟩ := c16_toUndirected_false h hr hn
    exact ⟨H, h0, h1, h2, h3, h4, h5⟩
  | true =>
    obtain ⟨H, h0, h1, h2, h3, h4, h5, _⟩ := c16_toUndirected_true h hr hn
    exact ⟨H, h0, h1, h2, h3, h4, h5⟩

/-- `reciprocal=False`: the pair is present exactly when one of the two orientations is -/
theorem C16_toUndirected_presence {g : Graph} (h : WF g) (hr : g.removal = true) (_hd : g.directed = true)
    (hn : NodeInv g) {H : Graph} (hH : g.toUndirected false = .ok H) :
    ∀ u v x, H.hasInteraction u v (some x) = true ↔
      (g.hasInteraction u v (some x) = true ∨ g.hasInteraction v u (some x) = true) := by
  obtain ⟨H', h0, _, _, _, _, _, h6⟩ := c16_toUndirected_false h hr hn
  rw [hH] at h0
  injection h0 with h0
  subst h0
  exact h6

/-- `reciprocal=True`: the pair is present exactly when both orientations are -/
theorem C16_toUndirected_presence_reciprocal {g : Graph} (h : WF g) (hr : g.removal = true)
    (_hd : g.directed = true) (hn : NodeInv g) {H : Graph} (hH : g.toUndirected true = .ok H) :
    ∀ u v x, H.hasInteraction u v (some x) = true ↔
      (g.hasInteraction u v (some x) = true ∧ g.hasInteraction v u (some x) = true) := by
  obtain ⟨H', h0, _, _, _, _, _, h6⟩ := c16_toUndirected_true h hr hn
  rw [hH] at h0
  injection h0 with h0
  subst h0
  exact h6

/-! ## both results are canonical -/

/-- the exposed timelines of the graph returned by either conversion are canonical, and their union is
    the presence set of the pair -/
theorem C16_canonical {g : Graph} (h : WF g) (hr : g.removal = true) (hn : NodeInv g) {H : Graph}
    (hH : g.toDirected = .ok H ∨ ∃ recip, g.toUndirected recip = .ok H) :
    ∀ u v tl, H.timeline u v = some tl →
      (CanonAsc tl ∧ ∀ x, memTl tl x ↔ H.hasInteraction u v (some x) = true) := by
  have hw : WF H ∧ H.removal = true := by
    rcases hH with hH | ⟨recip, hH⟩
    · obtain ⟨H', h0, _, h2, h3, _⟩ := c16_toDirected_core h hr hn
      rw [hH] at h0; injection h0 with h0; subst h0
      exact ⟨h3, h2⟩
    · cases recip with
      | false =>
        obtain ⟨H', h0, _, h2, h3, _⟩ := c16_toUndirected_false h hr hn
        rw [hH] at h0; injection h0 with h0; subst h0
        exact ⟨h3, h2⟩
      | true =>
        obtain ⟨H', h0, _, h2, h3, _⟩ := c16_toUndirected_true h hr hn
        rw [hH] at h0; injection h0 with h0; subst h0
        exact ⟨h3, h2⟩
  intro u v tl ht
  refine ⟨c16_wf_timeline_canon hw.1 u v tl ht, ?_⟩
  intro x
  have := c16_timeline_mem hw.1 hw.2 u v x
  rw [ht] at this
  exact this

/-! ## histories -/

/-- `to_directed()` after an arbitrary history of `add_interaction(s)` calls on a `DynGraph` -/
theorem C16_history_toDirected (ops : List Op) :
    let g := ((Graph.empty false true).run ops).1
    ∃ H, g.toDirected = .ok H ∧ H.directed = true ∧ H.removal = true ∧ WF H ∧ H.nodes = g.nodes ∧
      H.gattr = g.gattr ∧
      (∀ u v x, H.hasInteraction u v (some x) = true ↔
        ((u, v) ∈ g.interactions none none ∧ g.hasInteraction u v (some x) = true)) ∧
      (∀ u v x, (H.hasInteraction u v (some x) = true ∨ H.hasInteraction v u (some x) = true) ↔
        inLog false ((Graph.empty false true).runLog ops) u v x) ∧
      (∀ u v tl, H.timeline u v = some tl → CanonAsc tl) := by
  intro g
  have r := run_ok (Graph.empty false true) (WF.empty _ _) rfl ops
  have hn : NodeInv g := run_nodeInv _ (NodeInv.empty _ _) ops
  have hd : g.directed = false := r.directed
  obtain ⟨H, h0, h1, h2, h3, h4, h5, h6⟩ := c16_toDirected_core r.wf r.removal hn
  refine ⟨H, h0, h1, h2, h3, h4, h5, h6, ?_, ?_⟩
  · intro u v x
    have hlog : g.hasInteraction u v (some x) = true ↔
        inLog false ((Graph.empty false true).runLog ops) u v x := by
      rw [r.presence, empty_hasInteraction]; simp [Graph.empty]
    rw [← hlog]
    constructor
    · rintro (hp | hp)
      · exact C16_toDirected_sound r.wf r.removal hd hn h0 u v x hp
      · rw [q2_has_symm hd]; exact C16_toDirected_sound r.wf r.removal hd hn h0 v u x hp
    · exact C16_toDirected_some_orientation r.wf r.removal hd hn h0 u v x
  · intro u v tl ht
    exact (C16_canonical r.wf r.removal hn (Or.inl h0) u v tl ht).1

/-- `to_undirected(reciprocal)` after an arbitrary history on a `DynDiGraph` -/
theorem C16_history_toUndirected (ops : List Op) (recip : Bool) :
    let g := ((Graph.empty true true).run ops).1
    ∃ H, g.toUndirected recip = .ok H ∧ H.directed = false ∧ H.removal = true ∧ WF H ∧
      H.nodes = g.nodes ∧ H.gattr = g.gattr ∧
      (recip = false → ∀ u v x, H.hasInteraction u v (some x) = true ↔
        (g.hasInteraction u v (some x) = true ∨ g.hasInteraction v u (some x) = true)) ∧
      (recip = true → ∀ u v x, H.hasInteraction u v (some x) = true ↔
        (g.hasInteraction u v (some x) = true ∧ g.hasInteraction v u (some x) = true)) ∧
      (recip = false → ∀ u v x, H.hasInteraction u v (some x) = true ↔
        (inLog true ((Graph.empty true true).runLog ops) u v x ∨
          inLog true ((Graph.empty true true).runLog ops) v u x)) ∧
      (recip = true → ∀ u v x, H.hasInteraction u v (some x) = true ↔
        (inLog true ((Graph.empty true true).runLog ops) u v x ∧
          inLog true ((Graph.empty true true).runLog ops) v u x)) ∧
      (∀ u v tl, H.timeline u v = some tl → CanonAsc tl) := by
  intro g
  have r := run_ok (Graph.empty true true) (WF.empty _ _) rfl ops
  have hn : NodeInv g := run_nodeInv _ (NodeInv.empty _ _) ops
  have hlog : ∀ u v x, g.hasInteraction u v (some x) = true ↔
      inLog true ((Graph.empty true true).runLog ops) u v x := by
    intro u v x
    rw [r.presence, empty_hasInteraction]; simp [Graph.empty]
  cases recip with
  | false =>
    obtain ⟨H, h0, h1, h2, h3, h4, h5, h6⟩ := c16_toUndirected_false r.wf r.removal hn
    refine ⟨H, h0, h1, h2, h3, h4, h5, fun _ => h6, (by intro hc; cases hc), ?_, (by intro hc; cases hc), ?_⟩
    · intro _ u v x
      rw [h6, hlog, hlog]
    · intro u v tl ht
      exact (C16_canonical r.wf r.removal hn (Or.inr ⟨false, h0⟩) u v tl ht).1
  | true =>
    obtain ⟨H, h0, h1, h2, h3, h4, h5, h6⟩ := c16_toUndirected_true r.wf r.removal hn
    refine ⟨H, h0, h1, h2, h3, h4, h5, (by intro hc; cases hc), fun _ => h6, (by intro hc; cases hc), ?_, ?_⟩
    · intro _ u v x
      rw [h6, hlog, hlog]
    · intro u v tl ht
      exact (C16_canonical r.wf r.removal hn (Or.inr ⟨true, h0⟩) u v tl ht).1

/-- summary over histories: neither conversion raises; the result has the other class, is well formed
    (removal mode), keeps `_node` and the graph attributes, and exposes canonical timelines
    (presence: `C16_history_toDirected`, `C16_history_toUndirected`) -/
theorem C16_history (ops : List Op) :
    (let g := ((Graph.empty false true).run ops).1
     ∃ H, g.toDirected = .ok H ∧ H.directed = true ∧ H.removal = true ∧ WF H ∧ H.nodes = g.nodes ∧
      H.gattr = g.gattr ∧ (∀ u v tl, H.timeline u v = some tl → CanonAsc tl)) ∧
    (let g := ((Graph.empty true true).run ops).1
     ∀ recip, ∃ H, g.toUndirected recip = .ok H ∧ H.directed = false ∧ H.removal = true ∧ WF H ∧
      H.nodes = g.nodes ∧ H.gattr = g.gattr ∧ (∀ u v tl, H.timeline u v = some tl → CanonAsc tl)) := by
  constructor
  · obtain ⟨H, h0, h1, h2, h3, h4, h5, _, _, h8⟩ := C16_history_toDirected ops
    exact ⟨H, h0, h1, h2, h3, h4, h5, h8⟩
  · intro g recip
    obtain ⟨H, h0, h1, h2, h3, h4, h5, _, _, _, _, h10⟩ := C16_history_toUndirected ops recip
    exact ⟨H, h0, h1, h2, h3, h4, h5, h10⟩

/-! ## D. concrete witnesses -/

/-- directed: 0→1 on [5,8] and 1→0 on [2,3] -/
def c16_exU : Graph :=
  (((Graph.empty true true).addInteraction 0 1 (some 5) (some 9)).1.addInteraction 1 0 (some 2) (some 4)).1

theorem c16_sortedSet_ex : sortedSet [5, 6, 7, 8, 2, 3] = [2, 3, 5, 6, 7, 8] := by
  simp [sortedSet, List.mergeSort]; decide

theorem c16_sortedSet_nil : sortedSet [] = [] := by
  simp [sortedSet]

example : runsOf [2, 3, 5, 6, 7, 8] = [(2, 3), (5, 8)] ∧ runsOf [] = [] ∧ runsOf [4] = [(4, 4)] := by decide

/-- two stored orientations of one unordered pair give one entry of `merged` (first orientation met wins) -/
theorem c16_merged_two (g : Graph) (recip : Bool) (u v : Node)
    (hd : g.outInteractions none none = [(u, v), (v, u)]) :
    mergedGo g recip (c16_data g (g.outInteractions none none)) [] = [(u, v, c16_merged g recip u v)] := by
  rw [hd, c16_mergedGo_cons, if_neg (by simp), c16_mergedGo_cons, if_pos (by simp)]
  rfl

/-- the union merges the two orientations into one ascending timeline; the reciprocal version keeps nothing -/
theorem C16_toUndirected_witness :
    ((c16_exU.toUndirected false).toOption.map (fun H => (H.timeline 0 1, H.timeline 1 0, H.nodes))) =
      some (some [(2, 3), (5, 8)], some [(2, 3), (5, 8)], c16_exU.nodes) ∧
    ((c16_exU.toUndirected true).toOption.map (fun H => (H.timeline 0 1, H.edges, H.nodes))) =
      some (none, [], c16_exU.nodes) := by
  have hd : c16_exU.outInteractions none none = [(0, 1), (1, 0)] := by decide
  have h1 : c16_merged c16_exU false 0 1 = [2, 3, 5, 6, 7, 8] := by
    have : c16_inst c16_exU 0 1 ++ c16_inst c16_exU 1 0 = [5, 6, 7, 8, 2, 3] := by decide
    simp only [c16_merged, Bool.false_eq_true, if_false]
    rw [this, c16_sortedSet_ex]
  have h2 : c16_merged c16_exU true 0 1 = [] := by
    have : (c16_inst c16_exU 0 1).filter (fun x => (c16_inst c16_exU 1 0).contains x) = [] := by decide
    simp only [c16_merged, if_true]
    rw [this, c16_sortedSet_nil]
  rw [c16_toUndirected_eq, c16_toUndirected_eq, c16_merged_two _ _ 0 1 hd, c16_merged_two _ _ 0 1 hd, h1, h2]
  constructor
  · decide
  · decide

/-- overlapping orientations: 0→1 on [1,5], 1→0 on [4,9] give [1,9] resp. [4,5] -/
def c16_exU2 : Graph :=
  (((Graph.empty true true).addInteraction 0 1 (some 1) (some 6)).1.addInteraction 1 0 (some 4) (some 10)).1

theorem C16_toUndirected_witness_overlap :
    ((c16_exU2.toUndirected false).toOption.map (fun H => H.timeline 0 1)) = some (some [(1, 9)]) ∧
    ((c16_exU2.toUndirected true).toOption.map (fun H => H.timeline 1 0)) = some (some [(4, 5)]) := by
  have hd : c16_exU2.outInteractions none none = [(0, 1), (1, 0)] := by decide
  have h1 : c16_merged c16_exU2 false 0 1 = [1, 2, 3, 4, 5, 6, 7, 8, 9] := by
    have : c16_inst c16_exU2 0 1 ++ c16_inst c16_exU2 1 0 = [1, 2, 3, 4, 5, 4, 5, 6, 7, 8, 9] := by decide
    simp only [c16_merged, Bool.false_eq_true, if_false]
    rw [this]
    simp [sortedSet, List.mergeSort]; decide
  have h2 : c16_merged c16_exU2 true 0 1 = [4, 5] := by
    have : (c16_inst c16_exU2 0 1).filter (fun x => (c16_inst c16_exU2 1 0).contains x) = [4, 5] := by decide
    simp only [c16_merged, if_true]
    rw [this]
    simp [sortedSet, List.mergeSort]; decide
  rw [c16_toUndirected_eq, c16_toUndirected_eq, c16_merged_two _ _ 0 1 hd, c16_merged_two _ _ 0 1 hd, h1, h2]
  constructor
  · decide
  · decide

end Dynetx
