import DynetxModel
import DynetxProofs.Equivariance
import DynetxProofs.C20Hier
/-
  C20, clause "scores are invariant under renaming node ids", for the model variants added after Equivariance.lean:
  any exponent (`nodeScoreW`), label profiles (`nodeScoreP`) and time-varying labels / hierarchies (`nodeScoreH`).
  For the table-based variants the labelling of the renamed graph is any table `tab'` with `tab' l (ρ n) = tab l n`.
-/
namespace Dynetx

section
variable {ρ : Node → Node} (hρ : Function.Injective ρ)
include hρ

theorem rn_find_dist (td : List (Node × Nat)) (v : Node) :
    (((rnDist ρ td).find? (fun e => e.1 == ρ v)).map (·.2)).getD 0 = ((td.find? (fun e => e.1 == v)).map (·.2)).getD 0 := by
  have hfind : (rnDist ρ td).find? (fun e => e.1 == ρ v) = (td.find? (fun e => e.1 == v)).map (fun e => (ρ e.1, e.2)) := by
    simp only [rnDist, List.find?_map]
    congr 1
    apply congrArg (fun q => List.find? q td)
    funext e
    simp [Function.comp, rn_beq hρ]
  rw [hfind]
  cases td.find? (fun e => e.1 == v) <;> rfl

theorem rn_rank_nodes (td : List (Node × Nat)) (d : Nat) :
    ((rnDist ρ (remapDistances td)).filter (fun e => e.2 == d)).map (·.1)
      = (((remapDistances td).filter (fun e => e.2 == d)).map (·.1)).map ρ := by
  simp [rnDist, List.filter_map, List.map_map, Function.comp_def]

theorem rn_rank_vals (td : List (Node × Nat)) :
    (rnDist ρ (remapDistances td)).map (·.2) = (remapDistances td).map (·.2) := by
  simp [rnDist, List.map_map, Function.comp_def]

/-! ### any exponent -/

theorem rn_nodeScoreW (g : Graph) (sp : List ((Node × Node) × List TPath)) (ptype : Nat) (w : Nat → Rat) (u : Node) :
    nodeScoreW (g.rename ρ) (rnGroups ρ sp) ptype w (ρ u) = nodeScoreW g sp ptype w u := by
  unfold nodeScoreW
  simp only [rn_tDistances hρ, rn_remapDistances, rn_rank_vals hρ, rn_rank_nodes hρ, rn_labelFrequency hρ]

theorem C20W_rename_nodes (dg : Graph) (start delta : Int) (alphas : List (Nat × (Nat → Rat))) (ptype : Nat) :
    (dg.rename ρ).deltaConformityW start delta alphas ptype =
      (dg.deltaConformityW start delta alphas ptype).map (rnConf ρ) := by
  unfold Graph.deltaConformityW
  rw [rn_timeSlice hρ]
  cases dg.timeSlice start (some (start + delta)) with
  | error e => rfl
  | ok g =>
    simp only [Except.map, rn_ids]
    cases minList g.ids with
    | none => rfl
    | some mmid =>
      cases maxList g.ids with
      | none => rfl
      | some mid =>
        simp only
        rw [rn_allTimeRespectingPaths hρ]
        cases g.allTimeRespectingPaths (some (max start mmid)) (some (min mid (start + delta))) none with
        | error e => rfl
        | ok sp =>
          simp only [Except.map, rnConf, Option.map_some, rn_nodesAt hρ, List.map_map]
          congr 2
          apply List.map_congr_left
          intro a _
          simp only [Function.comp, List.map_map, Prod.mk.injEq, true_and]
          apply List.map_congr_left
          intro u _
          simp only [Function.comp, rn_nodeScoreW hρ]

/-! ### label profiles -/

theorem rn_labelFrequencyL (g : Graph) (lab lab' : Node → Nat) (hl : ∀ n, lab' (ρ n) = lab n) (u : Node)
    (nodes : List Node) (td : List (Node × Nat)) :
    labelFrequencyL (g.rename ρ) lab' (ρ u) (nodes.map ρ) (rnDist ρ td) = labelFrequencyL g lab u nodes td := by
  unfold labelFrequencyL
  simp only [List.map_map, List.length_map, hl]
  congr 2
  apply List.map_congr_left
  intro v _
  simp only [Function.comp, hl, rn_find_dist hρ, rn_neighbors hρ, List.length_map, List.filter_map, Function.comp_def]

theorem rn_profileFrequency (g : Graph) (tab tab' : LabelTable) (hl : ∀ l n, tab' l (ρ n) = tab l n)
    (profile : List Nat) (u : Node) (nodes : List Node) (td : List (Node × Nat)) :
    profileFrequency (g.rename ρ) tab' profile (ρ u) (nodes.map ρ) (rnDist ρ td)
      = profileFrequency g tab profile u nodes td := by
  unfold profileFrequency
  congr 1
  funext s l
  rw [rn_labelFrequencyL hρ g (tab l) (tab' l) (hl l)]

theorem rn_nodeScoreP (g : Graph) (tab tab' : LabelTable) (hl : ∀ l n, tab' l (ρ n) = tab l n) (pr : List Nat)
    (sp : List ((Node × Node) × List TPath)) (ptype alpha : Nat) (u : Node) :
    nodeScoreP (g.rename ρ) tab' pr (rnGroups ρ sp) ptype alpha (ρ u) = nodeScoreP g tab pr sp ptype alpha u := by
  unfold nodeScoreP
  simp only [rn_tDistances hρ, rn_remapDistances, rn_rank_vals hρ, rn_rank_nodes hρ, rn_profileFrequency hρ g tab tab' hl]

/-- the renaming of a profile result: node keys renamed, scores untouched -/
def rnConfP (ρ : Node → Node) (r : Option (List (Nat × List (List Nat × List (Node × Rat))))) :
    Option (List (Nat × List (List Nat × List (Node × Rat)))) :=
  r.map (fun l => l.map (fun ar => (ar.1, ar.2.map (fun ps => (ps.1, ps.2.map (fun nv => (ρ nv.1, nv.2)))))))

/-- **C20 (node renaming, profiles).** -/
theorem C20P_rename_nodes (dg : Graph) (tab tab' : LabelTable) (hl : ∀ l n, tab' l (ρ n) = tab l n)
    (start delta : Int) (alphas labels : List Nat) (profileSize ptype : Nat) :
    (dg.rename ρ).deltaConformityP tab' start delta alphas labels profileSize ptype =
      (dg.deltaConformityP tab start delta alphas labels profileSize ptype).map (rnConfP ρ) := by
  unfold Graph.deltaConformityP
  split
  · rfl
  · split
    · rfl
    · rw [rn_timeSlice hρ]
      cases dg.timeSlice start (some (start + delta)) with
      | error e => rfl
      | ok g =>
        simp only [Except.map, rn_ids]
        cases minList g.ids with
        | none => rfl
        | some mmid =>
          cases maxList g.ids with
          | none => rfl
          | some mid =>
            simp only
            rw [rn_allTimeRespectingPaths hρ]
            cases g.allTimeRespectingPaths (some (max start mmid)) (some (min mid (start + delta))) none with
            | error e => rfl
            | ok sp =>
              simp only [Except.map, rnConfP, Option.map_some, rn_nodesAt hρ, List.map_map]
              congr 2
              apply List.map_congr_left
              intro a _
              simp only [Function.comp, List.map_map, Prod.mk.injEq, true_and]
              apply List.map_congr_left
              intro pr _
              simp only [Function.comp, List.map_map, Prod.mk.injEq, true_and]
              apply List.map_congr_left
              intro u _
              simp only [Function.comp, rn_nodeScoreP hρ g tab tab' hl]

/-! ### time-varying labels and hierarchies -/

theorem rn_termH (g : Graph) (lab lab' : Node → LabelVal) (hl : ∀ n, lab' (ρ n) = lab n) (h : Option Hierarchy)
    (au : Nat) (td : List (Node × Nat)) (v : Node) :
    termH (g.rename ρ) lab' h au (rnDist ρ td) (ρ v) = termH g lab h au td v := by
  unfold termH
  simp only [hl, rn_find_dist hρ, rn_neighbors hρ, List.map_map, Function.comp_def, List.length_map]

theorem rn_labelFrequencyH (g : Graph) (lab lab' : Node → LabelVal) (hl : ∀ n, lab' (ρ n) = lab n)
    (h : Option Hierarchy) (u : Node) (nodes : List Node) (td : List (Node × Nat)) (start : Int) :
    labelFrequencyH (g.rename ρ) lab' h (ρ u) (nodes.map ρ) (rnDist ρ td) start
      = labelFrequencyH g lab h u nodes td start := by
  unfold labelFrequencyH
  simp only [hl, List.map_map, List.length_map, Function.comp_def, rn_termH hρ g lab lab' hl]

theorem rn_profileFrequencyH (g : Graph) (tab tab' : LabelTableH) (hl : ∀ l n, tab' l (ρ n) = tab l n)
    (hier : Hierarchies) (profile : List Nat) (u : Node) (nodes : List Node) (td : List (Node × Nat)) (start : Int) :
    profileFrequencyH (g.rename ρ) tab' hier profile (ρ u) (nodes.map ρ) (rnDist ρ td) start
      = profileFrequencyH g tab hier profile u nodes td start := by
  unfold profileFrequencyH
  congr 1
  funext s l
  cases s with
  | error e => rfl
  | ok s => simp only [rn_labelFrequencyH hρ g (tab l) (tab' l) (hl l)]

theorem rn_nodeScoreH (g : Graph) (tab tab' : LabelTableH) (hl : ∀ l n, tab' l (ρ n) = tab l n) (hier : Hierarchies)
    (pr : List Nat) (sp : List ((Node × Node) × List TPath)) (ptype alpha : Nat) (start : Int) (u : Node) :
    nodeScoreH (g.rename ρ) tab' hier pr (rnGroups ρ sp) ptype alpha start (ρ u)
      = nodeScoreH g tab hier pr sp ptype alpha start u := by
  unfold nodeScoreH
  simp only [rn_tDistances hρ, rn_remapDistances, rn_rank_vals hρ, rn_rank_nodes hρ,
    rn_profileFrequencyH hρ g tab tab' hl]

end

/-- `allOk` commutes with a map of the successful values -/
theorem allOk_map_values {α β γ : Type} (l : List α) (F : α → Except Err β) (G : α → Except Err γ) (p : β → γ)
    (h : ∀ x ∈ l, G x = (F x).map p) : allOk (l.map G) = (allOk (l.map F)).map (List.map p) := by
  induction l with
  | nil => rfl
  | cons x xs ih =>
    have hx := h x (by simp)
    have ih' := ih (fun y hy => h y (by simp [hy]))
    simp only [List.map_cons]
    rw [hx]
    cases hF : F x with
    | error e => rfl
    | ok y =>
      simp only [Except.map, allOk]
      rw [ih']
      cases allOk (xs.map F) with
      | error e => rfl
      | ok r => rfl

section
variable {ρ : Node → Node} (hρ : Function.Injective ρ)
include hρ

/-- **C20 (node renaming; time-varying labels and hierarchies).**  Same result with renamed keys, same exceptions. -/
theorem C20H_rename_nodes (dg : Graph) (tab tab' : LabelTableH) (hl : ∀ l n, tab' l (ρ n) = tab l n) (hier : Hierarchies)
    (start delta : Int) (alphas labels : List Nat) (profileSize ptype : Nat) :
    (dg.rename ρ).deltaConformityH tab' hier start delta alphas labels profileSize ptype =
      (dg.deltaConformityH tab hier start delta alphas labels profileSize ptype).map (rnConfP ρ) := by
  unfold Graph.deltaConformityH
  split
  · rfl
  · split
    · rfl
    · rw [rn_timeSlice hρ]
      cases dg.timeSlice start (some (start + delta)) with
      | error e => rfl
      | ok g =>
        simp only [Except.map, rn_ids]
        cases minList g.ids with
        | none => rfl
        | some mmid =>
          cases maxList g.ids with
          | none => rfl
          | some mid =>
            simp only
            rw [rn_allTimeRespectingPaths hρ]
            cases g.allTimeRespectingPaths (some (max start mmid)) (some (min mid (start + delta))) none with
            | error e => rfl
            | ok sp =>
              simp only [Except.map, rn_nodesAt hρ]
              -- innermost: the scores of the nodes
              have hN : ∀ (a : Nat) (pr : List Nat),
                  allOk (((g.nodesAt (some start)).map ρ).map (fun u =>
                    match nodeScoreH (g.rename ρ) tab' hier pr (rnGroups ρ sp) ptype a start u with
                    | .error e => .error e
                    | .ok x => (.ok (u, x) : Except Err (Node × Rat))))
                  = match allOk ((g.nodesAt (some start)).map (fun u =>
                      match nodeScoreH g tab hier pr sp ptype a start u with
                      | .error e => .error e
                      | .ok x => (.ok (u, x) : Except Err (Node × Rat)))) with
                    | .ok r => .ok (r.map (fun nv => (ρ nv.1, nv.2)))
                    | .error e => .error e := by
                intro a pr
                rw [List.map_map]
                rw [allOk_map_values (g.nodesAt (some start))
                  (fun u => match nodeScoreH g tab hier pr sp ptype a start u with
                    | .error e => .error e
                    | .ok x => (.ok (u, x) : Except Err (Node × Rat))) _ (fun nv => (ρ nv.1, nv.2)) (by
                  intro u _
                  simp only [Function.comp, rn_nodeScoreH hρ g tab tab' hl]
                  cases nodeScoreH g tab hier pr sp ptype a start u <;> rfl)]
                cases allOk ((g.nodesAt (some start)).map (fun u =>
                    match nodeScoreH g tab hier pr sp ptype a start u with
                    | .error e => .error e
                    | .ok x => (.ok (u, x) : Except Err (Node × Rat)))) <;> rfl
              have hP : ∀ (a : Nat),
                  allOk ((profilesOf labels profileSize).map (fun pr =>
                    match allOk (((g.nodesAt (some start)).map ρ).map (fun u =>
                        match nodeScoreH (g.rename ρ) tab' hier pr (rnGroups ρ sp) ptype a start u with
                        | .error e => .error e
                        | .ok x => (.ok (u, x) : Except Err (Node × Rat)))) with
                    | .error e => .error e
                    | .ok sc => (.ok (pr, sc) : Except Err (List Nat × List (Node × Rat)))))
                  = match allOk ((profilesOf labels profileSize).map (fun pr =>
                      match allOk ((g.nodesAt (some start)).map (fun u =>
                          match nodeScoreH g tab hier pr sp ptype a start u with
                          | .error e => .error e
                          | .ok x => (.ok (u, x) : Except Err (Node × Rat)))) with
                      | .error e => .error e
                      | .ok sc => (.ok (pr, sc) : Except Err (List Nat × List (Node × Rat))))) with
                    | .ok r => .ok (r.map (fun ps => (ps.1, ps.2.map (fun nv => (ρ nv.1, nv.2)))))
                    | .error e => .error e := by
                intro a
                rw [allOk_map_values (profilesOf labels profileSize)
                  (fun pr => match allOk ((g.nodesAt (some start)).map (fun u =>
                      match nodeScoreH g tab hier pr sp ptype a start u with
                      | .error e => .error e
                      | .ok x => (.ok (u, x) : Except Err (Node × Rat)))) with
                    | .error e => .error e
                    | .ok sc => (.ok (pr, sc) : Except Err (List Nat × List (Node × Rat)))) _
                  (fun ps => (ps.1, ps.2.map (fun nv => (ρ nv.1, nv.2)))) (by
                  intro pr _
                  rw [hN a pr]
                  cases allOk ((g.nodesAt (some start)).map (fun u =>
                      match nodeScoreH g tab hier pr sp ptype a start u with
                      | .error e => .error e
                      | .ok x => (.ok (u, x) : Except Err (Node × Rat)))) <;> rfl)]
                cases allOk ((profilesOf labels profileSize).map (fun pr =>
                    match allOk ((g.nodesAt (some start)).map (fun u =>
                        match nodeScoreH g tab hier pr sp ptype a start u with
                        | .error e => .error e
                        | .ok x => (.ok (u, x) : Except Err (Node × Rat)))) with
                    | .error e => .error e
                    | .ok sc => (.ok (pr, sc) : Except Err (List Nat × List (Node × Rat))))) <;> rfl
              have hA :
                  allOk (alphas.map (fun a =>
                    match allOk ((profilesOf labels profileSize).map (fun pr =>
                        match allOk (((g.nodesAt (some start)).map ρ).map (fun u =>
                            match nodeScoreH (g.rename ρ) tab' hier pr (rnGroups ρ sp) ptype a start u with
                            | .error e => .error e
                            | .ok x => (.ok (u, x) : Except Err (Node × Rat)))) with
                        | .error e => .error e
                        | .ok sc => (.ok (pr, sc) : Except Err (List Nat × List (Node × Rat))))) with
                    | .error e => .error e
                    | .ok prs => (.ok (a, prs) : Except Err (Nat × List (List Nat × List (Node × Rat))))))
                  = match allOk (alphas.map (fun a =>
                      match allOk ((profilesOf labels profileSize).map (fun pr =>
                          match allOk ((g.nodesAt (some start)).map (fun u =>
                              match nodeScoreH g tab hier pr sp ptype a start u with
                              | .error e => .error e
                              | .ok x => (.ok (u, x) : Except Err (Node × Rat)))) with
                          | .error e => .error e
                          | .ok sc => (.ok (pr, sc) : Except Err (List Nat × List (Node × Rat))))) with
                      | .error e => .error e
                      | .ok prs => (.ok (a, prs) : Except Err (Nat × List (List Nat × List (Node × Rat)))))) with
                    | .ok r => .ok (r.map (fun ar => (ar.1, ar.2.map (fun ps => (ps.1, ps.2.map (fun nv => (ρ nv.1, nv.2)))))))
                    | .error e => .error e := by
                rw [allOk_map_values alphas
                  (fun a => match allOk ((profilesOf labels profileSize).map (fun pr =>
                      match allOk ((g.nodesAt (some start)).map (fun u =>
                          match nodeScoreH g tab hier pr sp ptype a start u with
                          | .error e => .error e
                          | .ok x => (.ok (u, x) : Except Err (Node × Rat)))) with
                      | .error e => .error e
                      | .ok sc => (.ok (pr, sc) : Except Err (List Nat × List (Node × Rat))))) with
                    | .error e => .error e
                    | .ok prs => (.ok (a, prs) : Except Err (Nat × List (List Nat × List (Node × Rat))))) _
                  (fun ar => (ar.1, ar.2.map (fun ps => (ps.1, ps.2.map (fun nv => (ρ nv.1, nv.2)))))) (by
                  intro a _
                  rw [hP a]
                  cases allOk ((profilesOf labels profileSize).map (fun pr =>
                      match allOk ((g.nodesAt (some start)).map (fun u =>
                          match nodeScoreH g tab hier pr sp ptype a start u with
                          | .error e => .error e
                          | .ok x => (.ok (u, x) : Except Err (Node × Rat)))) with
                      | .error e => .error e
                      | .ok sc => (.ok (pr, sc) : Except Err (List Nat × List (Node × Rat))))) <;> rfl)]
                cases allOk (alphas.map (fun a =>
                    match allOk ((profilesOf labels profileSize).map (fun pr =>
                        match allOk ((g.nodesAt (some start)).map (fun u =>
                            match nodeScoreH g tab hier pr sp ptype a start u with
                            | .error e => .error e
                            | .ok x => (.ok (u, x) : Except Err (Node × Rat)))) with
                        | .error e => .error e
                        | .ok sc => (.ok (pr, sc) : Except Err (List Nat × List (Node × Rat))))) with
                    | .error e => .error e
                    | .ok prs => (.ok (a, prs) : Except Err (Nat × List (List Nat × List (Node × Rat)))))) <;> rfl
              erw [hA]
              cases allOk (alphas.map (fun a =>
                  match allOk ((profilesOf labels profileSize).map (fun pr =>
                      match allOk ((g.nodesAt (some start)).map (fun u =>
                          match nodeScoreH g tab hier pr sp ptype a start u with
                          | .error e => .error e
                          | .ok x => (.ok (u, x) : Except Err (Node × Rat)))) with
                      | .error e => .error e
                      | .ok sc => (.ok (pr, sc) : Except Err (List Nat × List (Node × Rat))))) with
                  | .error e => .error e
                  | .ok prs => (.ok (a, prs) : Except Err (Nat × List (List Nat × List (Node × Rat)))))) <;> rfl

end

end Dynetx
