import DynetxProofs.TextRoundtrip
/-
  C09 / C10 at text level for ARBITRARY node types.  `name n` is what the writer prints for node `n` (`str(n)`),
  `dec` what the reader's `nodetype` makes of a field.  If `dec (name n) = n` and no name is empty or contains
  whitespace, the delimiter or the comment marker (the explicit, necessary hypotheses of the property's "matching
  nodetype / delimiter"), then what `write_snapshots` / `write_interactions` print is parsed back into exactly the rows
  that were written.  `TextRoundtrip.lean` is the instance of integer ids.
-/
namespace Dynetx

/-- the reader's node type inverts the writer's rendering, and names are clean for the marker / delimiter in use -/
structure NameOK (cm : Char) (delim : Option Char) (name : Node → List Char) (dec : List Char → Option Node) : Prop where
  dec_name : ∀ n, dec (name n) = some n
  ne : ∀ n, name n ≠ []
  ws : ∀ n, ∀ c ∈ name n, isWs c = false
  nocm : ∀ n, cm ∉ name n
  nodelim : ∀ d, delim = some d → ∀ n, d ∉ name n

section
variable {cm : Char} {name : Node → List Char} {dec : List Char → Option Node}

theorem txtn_snapFields_ne (name : Node → List Char) (hne : ∀ n, name n ≠ []) (u v : Node) (t : Int) :
    ∀ f ∈ [name u, name v, intDigits t], f ≠ [] := by
  intro f hf
  simp only [List.mem_cons, List.not_mem_nil, or_false] at hf
  rcases hf with hf | hf | hf <;> rw [hf]
  · exact hne u
  · exact hne v
  · exact txt_intDigits_ne_nil t

theorem txtn_snapFields_ws (name : Node → List Char) (hws : ∀ n, ∀ c ∈ name n, isWs c = false) (u v : Node) (t : Int) :
    ∀ f ∈ [name u, name v, intDigits t], ∀ c ∈ f, isWs c = false := by
  intro f hf
  simp only [List.mem_cons, List.not_mem_nil, or_false] at hf
  rcases hf with hf | hf | hf <;> rw [hf]
  · exact hws u
  · exact hws v
  · exact txt_intDigits_not_ws t

theorem txtn_snapFields_notin (name : Node → List Char) (c : Char) (hc : c.isDigit = false ∧ c ≠ '-')
    (hn : ∀ n, c ∉ name n) (u v : Node) (t : Int) : ∀ f ∈ [name u, name v, intDigits t], c ∉ f := by
  intro f hf
  simp only [List.mem_cons, List.not_mem_nil, or_false] at hf
  rcases hf with hf | hf | hf <;> rw [hf]
  · exact hn u
  · exact hn v
  · exact (Text_digits_clean c hc.1 hc.2 0 t).2.1

theorem txtn_snapRow_of_fields (hdec : ∀ n, dec (name n) = some n) (delim : Option Char) (line : List Char)
    (u v : Node) (t : Int) (h : fieldsOf cm delim line = some [name u, name v, intDigits t]) :
    snapRowWith dec cm delim line = .row u v t none := by
  simp only [snapRowWith, h, hdec, Text_int_roundtrip]

/-- a written snapshot line is read back as its row (explicit delimiter) -/
theorem TextN_snapRow (d : Char) (h : NameOK cm (some d) name dec) (u v : Node) (t : Int)
    (hd : d.isDigit = false ∧ d ≠ '-') (hcm : cm.isDigit = false ∧ cm ≠ '-' ∧ cm ≠ d) :
    snapRowWith dec cm (some d) (joinFields d [name u, name v, intDigits t]) = .row u v t none :=
  txtn_snapRow_of_fields h.dec_name (some d) _ u v t
    (txt_fieldsOf_join cm d [name u, name v, intDigits t] (by simp) (txtn_snapFields_ne name h.ne u v t)
      (txtn_snapFields_ws name h.ws u v t) (txtn_snapFields_notin name d hd (h.nodelim d rfl) u v t)
      (txtn_snapFields_notin name cm ⟨hcm.1, hcm.2.1⟩ h.nocm u v t) hcm.2.2)

/-- writer's default delimiter `' '`, reader's default `split()` -/
theorem TextN_snapRow_default (h : NameOK cm none name dec) (u v : Node) (t : Int)
    (hcm : cm.isDigit = false ∧ cm ≠ '-' ∧ cm ≠ ' ') :
    snapRowWith dec cm none (joinFields ' ' [name u, name v, intDigits t]) = .row u v t none :=
  txtn_snapRow_of_fields h.dec_name none _ u v t
    (txt_fieldsOf_join_default cm [name u, name v, intDigits t] (by simp) (txtn_snapFields_ne name h.ne u v t)
      (txtn_snapFields_ws name h.ws u v t) (txtn_snapFields_notin name cm ⟨hcm.1, hcm.2.1⟩ h.nocm u v t) hcm.2.2)

/-! interaction rows -/

theorem txtn_intFields_ne (name : Node → List Char) (hne : ∀ n, name n ≠ []) (u v : Node) (plus : Bool) (t : Int) :
    ∀ f ∈ [name u, name v, [if plus then '+' else '-'], intDigits t], f ≠ [] := by
  intro f hf
  simp only [List.mem_cons, List.not_mem_nil, or_false] at hf
  rcases hf with hf | hf | hf | hf <;> rw [hf]
  · exact hne u
  · exact hne v
  · simp
  · exact txt_intDigits_ne_nil t

theorem txtn_intFields_ws (name : Node → List Char) (hws : ∀ n, ∀ c ∈ name n, isWs c = false)
    (u v : Node) (plus : Bool) (t : Int) :
    ∀ f ∈ [name u, name v, [if plus then '+' else '-'], intDigits t], ∀ c ∈ f, isWs c = false := by
  intro f hf
  simp only [List.mem_cons, List.not_mem_nil, or_false] at hf
  rcases hf with hf | hf | hf | hf <;> rw [hf]
  · exact hws u
  · exact hws v
  · intro c hc
    simp only [List.mem_singleton] at hc
    subst hc
    cases plus <;> decide
  · exact txt_intDigits_not_ws t

theorem txtn_intFields_notin (name : Node → List Char) (c : Char) (hc : c.isDigit = false ∧ c ≠ '-' ∧ c ≠ '+')
    (hn : ∀ n, c ∉ name n) (u v : Node) (plus : Bool) (t : Int) :
    ∀ f ∈ [name u, name v, [if plus then '+' else '-'], intDigits t], c ∉ f := by
  intro f hf
  simp only [List.mem_cons, List.not_mem_nil, or_false] at hf
  rcases hf with hf | hf | hf | hf <;> rw [hf]
  · exact hn u
  · exact hn v
  · intro hm
    simp only [List.mem_singleton] at hm
    cases plus
    · exact hc.2.1 (by simpa using hm)
    · exact hc.2.2 (by simpa using hm)
  · exact (Text_digits_clean c hc.1 hc.2.1 0 t).2.1

theorem txtn_intRow_of_fields (hdec : ∀ n, dec (name n) = some n) (delim : Option Char) (line : List Char)
    (u v : Node) (plus : Bool) (t : Int)
    (h : fieldsOf cm delim line = some [name u, name v, [if plus then '+' else '-'], intDigits t]) :
    intRowWith dec cm delim line = .row { t := t, u := u, v := v, plus := plus } := by
  simp only [intRowWith, h, hdec, Text_int_roundtrip]
  cases plus <;> rfl

theorem TextN_intRow (d : Char) (h : NameOK cm (some d) name dec) (u v : Node) (plus : Bool) (t : Int)
    (hd : d.isDigit = false ∧ d ≠ '-' ∧ d ≠ '+') (hcm : cm.isDigit = false ∧ cm ≠ '-' ∧ cm ≠ '+' ∧ cm ≠ d) :
    intRowWith dec cm (some d) (joinFields d [name u, name v, [if plus then '+' else '-'], intDigits t])
      = .row { t := t, u := u, v := v, plus := plus } :=
  txtn_intRow_of_fields h.dec_name (some d) _ u v plus t
    (txt_fieldsOf_join cm d _ (by simp) (txtn_intFields_ne name h.ne u v plus t)
      (txtn_intFields_ws name h.ws u v plus t) (txtn_intFields_notin name d hd (h.nodelim d rfl) u v plus t)
      (txtn_intFields_notin name cm ⟨hcm.1, hcm.2.1, hcm.2.2.1⟩ h.nocm u v plus t) hcm.2.2.2)

theorem TextN_intRow_default (h : NameOK cm none name dec) (u v : Node) (plus : Bool) (t : Int)
    (hcm : cm.isDigit = false ∧ cm ≠ '-' ∧ cm ≠ '+' ∧ cm ≠ ' ') :
    intRowWith dec cm none (joinFields ' ' [name u, name v, [if plus then '+' else '-'], intDigits t])
      = .row { t := t, u := u, v := v, plus := plus } :=
  txtn_intRow_of_fields h.dec_name none _ u v plus t
    (txt_fieldsOf_join_default cm _ (by simp) (txtn_intFields_ne name h.ne u v plus t)
      (txtn_intFields_ws name h.ws u v plus t)
      (txtn_intFields_notin name cm ⟨hcm.1, hcm.2.1, hcm.2.2.1⟩ h.nocm u v plus t) hcm.2.2.2)

/-! whole files -/

theorem txtn_goS (delim : Option Char) (line : Node × Node × Int → List Char)
    (h : ∀ r, snapRowWith dec cm delim (line r) = .row r.1 r.2.1 r.2.2 none) (rows : List (Node × Node × Int)) :
    ∀ g : Graph, parseSnapshotsTextWith.go dec cm delim g (rows.map line)
      = g.addMany (rows.map (fun r => (r.1, r.2.1, r.2.2, none))) := by
  induction rows with
  | nil => intro g; rfl
  | cons r rest ih =>
    intro g
    simp only [List.map_cons, parseSnapshotsTextWith.go, h r, Graph.addMany]
    cases g.addInteraction r.1 r.2.1 (some r.2.2) none with
    | mk g' err =>
      cases err with
      | none => exact ih g'
      | some e => rfl

theorem txtn_goI (delim : Option Char) (line : Ev → List Char)
    (h : ∀ r, intRowWith dec cm delim (line r) = .row r) (rows : List Ev) :
    ∀ g : Graph, parseInteractionsTextWith.go dec cm delim g (rows.map line) = g.replayRows rows := by
  induction rows with
  | nil => intro g; rfl
  | cons r rest ih =>
    intro g
    simp only [List.map_cons, parseInteractionsTextWith.go, h r, Graph.replayRows]
    cases g.replayRow r with
    | mk g' err =>
      cases err with
      | none => exact ih g'
      | some e => rfl

/-- **C09 at text level, any node type**: the lines written by `generate_snapshots(G, d)` are read by
    `parse_snapshots(delimiter=d, nodetype=dec)` exactly as the rows of `generate_snapshots` -/
theorem C09_textN_roundtrip (g : Graph) (d : Char) (h : NameOK cm (some d) name dec)
    (hd : d.isDigit = false ∧ d ≠ '-') (hcm : cm.isDigit = false ∧ cm ≠ '-' ∧ cm ≠ d) :
    parseSnapshotsTextWith dec g.directed cm (some d) (g.snapshotLinesWith name d)
      = parseSnapshots g.directed (g.genSnapshots.map (fun r => (r.1, r.2.1, r.2.2, none))) := by
  unfold parseSnapshotsTextWith parseSnapshots Graph.snapshotLinesWith
  exact txtn_goS (some d) (fun r => joinFields d [name r.1, name r.2.1, intDigits r.2.2])
    (fun r => TextN_snapRow d h r.1 r.2.1 r.2.2 hd hcm) g.genSnapshots _

theorem C09_textN_roundtrip_default (g : Graph) (h : NameOK cm none name dec)
    (hcm : cm.isDigit = false ∧ cm ≠ '-' ∧ cm ≠ ' ') :
    parseSnapshotsTextWith dec g.directed cm none (g.snapshotLinesWith name ' ')
      = parseSnapshots g.directed (g.genSnapshots.map (fun r => (r.1, r.2.1, r.2.2, none))) := by
  unfold parseSnapshotsTextWith parseSnapshots Graph.snapshotLinesWith
  exact txtn_goS none (fun r => joinFields ' ' [name r.1, name r.2.1, intDigits r.2.2])
    (fun r => TextN_snapRow_default h r.1 r.2.1 r.2.2 hcm) g.genSnapshots _

/-- **C10 at text level, any node type** -/
theorem C10_textN_roundtrip (g : Graph) (d : Char) (h : NameOK cm (some d) name dec)
    (hd : d.isDigit = false ∧ d ≠ '-' ∧ d ≠ '+') (hcm : cm.isDigit = false ∧ cm ≠ '-' ∧ cm ≠ '+' ∧ cm ≠ d) :
    parseInteractionsTextWith dec g.directed cm (some d) (g.interactionLinesWith name d)
      = parseInteractions g.directed g.genInteractions := by
  unfold parseInteractionsTextWith parseInteractions Graph.interactionLinesWith
  exact txtn_goI (some d) _ (fun r => TextN_intRow d h r.u r.v r.plus r.t hd hcm) g.genInteractions _

theorem C10_textN_roundtrip_default (g : Graph) (h : NameOK cm none name dec)
    (hcm : cm.isDigit = false ∧ cm ≠ '-' ∧ cm ≠ '+' ∧ cm ≠ ' ') :
    parseInteractionsTextWith dec g.directed cm none (g.interactionLinesWith name ' ')
      = parseInteractions g.directed g.genInteractions := by
  unfold parseInteractionsTextWith parseInteractions Graph.interactionLinesWith
  exact txtn_goI none _ (fun r => TextN_intRow_default h r.u r.v r.plus r.t hcm) g.genInteractions _

end

/-- the integer-id layer of `TextRoundtrip.lean` is an instance: decimal names, `int` as node type -/
theorem TextN_nat_instance (cm : Char) (delim : Option Char) (hcm : cm.isDigit = false)
    (hd : ∀ d, delim = some d → d.isDigit = false) : NameOK cm delim natDigits nodeOf where
  dec_name := Text_nat_roundtrip
  ne := txt_natDigits_ne_nil
  ws := txt_natDigits_not_ws
  nocm := fun n hm => by
    have := txt_natDigits_isDigit n cm hm
    rw [hcm] at this; exact Bool.noConfusion this
  nodelim := fun d hdd n hm => by
    have := txt_natDigits_isDigit n d hm
    rw [hd d hdd] at this; exact Bool.noConfusion this

end Dynetx
