import DynetxModel
import DynetxProofs.C20
import DynetxProofs.C20Profiles
import DynetxProofs.C20Weights
import DynetxProofs.C20Hier
/-
  C20, clause "scores equal 1 for every node that reaches another node when all nodes share one label (0 for nodes that
  reach none)", beyond the single-label / natural-exponent model of C20.lean:
  * for ANY exponent (table of positive weights): `C20W_all_equal`;
  * for label PROFILES (every label of the profile shared): `C20P_all_equal`;
  * hence for the full-featured model with static labels and no hierarchies (`C20H_all_equal_static`).
-/
namespace Dynetx

/-- the arithmetic core: when every per-distance similarity is 1 the normalised sum is 1 (0 when nothing is reached) -/
theorem core_all_one_W (td : List (Node × Nat)) (w : Nat → Rat) (hw : ∀ d, 1 ≤ d → 0 < w d) :
    (match (ranksOf td).getLast? with
      | none => ((ranksOf td).map (fun d => (1 : Rat) / w d)).sum
      | some mx => ((ranksOf td).map (fun d => (1 : Rat) / w d)).sum / normConstW w mx)
      = if td = [] then 0 else 1 := by
  rw [ranksOf_eq_range', List.getLast?_range']
  by_cases htd : td = []
  · subst htd
    simp [sortedSetNat]
  · have hk : (sortedSetNat (td.map (·.2))).length ≠ 0 := by
      intro h0
      obtain ⟨p, hp⟩ := List.exists_mem_of_ne_nil td htd
      have : p.2 ∈ sortedSetNat (td.map (·.2)) := mem_sortedSetNat.2 (List.mem_map.2 ⟨p, hp, rfl⟩)
      rw [List.length_eq_zero_iff.1 h0] at this; simp at this
    simp only [hk, htd, if_false]
    have hk' : 1 + (sortedSetNat (td.map (·.2))).length - 1 = (sortedSetNat (td.map (·.2))).length := by omega
    rw [hk', normConstW_eq, List.range'_eq_map_range, List.map_map]
    have hfun : ((fun d => (1 : Rat) / w d) ∘ fun x => 1 + x) = (fun i => (1 : Rat) / w (i + 1)) := by
      funext i; simp [Nat.add_comm]
    rw [hfun]
    exact div_self (normConstW_eq w _ ▸ (normConstW_pos w hw _ (by omega))).ne'

/-- **C20 (all equal, any exponent).** -/
theorem C20W_all_equal (g : Graph) (sp : List ((Node × Node) × List TPath)) (ptype : Nat) (w : Nat → Rat)
    (hw : ∀ d, 1 ≤ d → 0 < w d) (u : Node)
    (hn : ∀ v ∈ (tDistances sp ptype u).map (·.1), g.label v = g.label u)
    (hnb : ∀ v ∈ (tDistances sp ptype u).map (·.1), ∀ t, ∀ x ∈ g.neighbors v t, g.label x = g.label v) :
    nodeScoreW g sp ptype w u = if tDistances sp ptype u = [] then 0 else 1 := by
  rw [nodeScoreW_eq]
  have hraw : rawOfW g (tDistances sp ptype u) w u
      = ((ranksOf (tDistances sp ptype u)).map (fun d => (1 : Rat) / w d)).sum := by
    rw [rawOfW_eq]
    congr 1
    apply List.map_congr_left
    intro d hd
    rw [labelFrequency_all_equal g u _ _ (nodesAtRank_ne_nil hd)
      (fun v hv => hn v (mem_nodesAtRank hv)) (fun v hv => hnb v (mem_nodesAtRank hv))]
  unfold scoreOfW
  rw [hraw]
  have := core_all_one_W (tDistances sp ptype u) w hw
  cases hl : (ranksOf (tDistances sp ptype u)).getLast? with
  | none => rw [hl] at this; simpa using this
  | some mx => rw [hl] at this; simpa using this

/-- one label of a profile: shared by `u`, the nodes of the rank and all their neighbours -/
theorem labelFrequencyL_all_equal (g : Graph) (lab : Node → Nat) (u : Node) (nodes : List Node) (td : List (Node × Nat))
    (hne : nodes ≠ [])
    (hn : ∀ v ∈ nodes, lab v = lab u)
    (hnb : ∀ v ∈ nodes, ∀ t, ∀ x ∈ g.neighbors v t, lab x = lab v) :
    labelFrequencyL g lab u nodes td = 1 := by
  unfold labelFrequencyL
  apply avg_eq_one _ _ hne
  intro v hv
  have h1 : (lab u == lab v) = true := by simp [hn v hv]
  simp only [h1, if_true]
  apply term_eq_one
  intro _
  congr 1
  rw [List.filter_eq_self]
  intro x hx
  simp [hnb v hv _ x hx]

theorem foldl_mul_one {α : Type} (l : List α) (F : α → Rat) (hF : ∀ x ∈ l, F x = 1) :
    l.foldl (fun s x => s * F x) 1 = 1 := by
  induction l with
  | nil => rfl
  | cons x xs ih =>
    rw [List.foldl_cons, hF x (by simp), mul_one]
    exact ih (fun y hy => hF y (by simp [hy]))

/-- **C20 (all equal, profiles).**  If, for every label of the profile, the node, everything it reaches and the neighbours
    of what it reaches carry one value, its score for that profile is 1 when it reaches something and 0 otherwise. -/
theorem C20P_all_equal (g : Graph) (tab : LabelTable) (pr : List Nat) (sp : List ((Node × Node) × List TPath))
    (ptype alpha : Nat) (u : Node)
    (hn : ∀ l ∈ pr, ∀ v ∈ (tDistances sp ptype u).map (·.1), tab l v = tab l u)
    (hnb : ∀ l ∈ pr, ∀ v ∈ (tDistances sp ptype u).map (·.1), ∀ t, ∀ x ∈ g.neighbors v t, tab l x = tab l v) :
    nodeScoreP g tab pr sp ptype alpha u = if tDistances sp ptype u = [] then 0 else 1 := by
  rw [nodeScoreP_eq]
  have hraw : rawOfP g tab pr (tDistances sp ptype u) alpha u
      = ((ranksOf (tDistances sp ptype u)).map (fun d => (1 : Rat) / ((d : Nat) : Rat) ^ alpha)).sum := by
    rw [rawOfP_eq]
    congr 1
    apply List.map_congr_left
    intro d hd
    have : profileFrequency g tab pr u (nodesAtRank (tDistances sp ptype u) d) (tDistances sp ptype u) = 1 := by
      unfold profileFrequency
      apply foldl_mul_one
      intro l hl
      exact labelFrequencyL_all_equal g (tab l) u _ _ (nodesAtRank_ne_nil hd)
        (fun v hv => hn l hl v (mem_nodesAtRank hv)) (fun v hv => hnb l hl v (mem_nodesAtRank hv))
    rw [this]
  unfold scoreOfP
  rw [hraw]
  have := core_all_one_W (tDistances sp ptype u) (fun d => ((d : Nat) : Rat) ^ alpha)
    (fun d hd => by have : (0 : Rat) < (d : Rat) := by exact_mod_cast hd
                    positivity)
  cases hl : (ranksOf (tDistances sp ptype u)).getLast? with
  | none => rw [hl] at this; simpa using this
  | some mx => rw [hl] at this; simpa [normConst_eq_W] using this

/-- the same for the full-featured model when the labels are static and there are no hierarchies -/
theorem C20H_all_equal_static (g : Graph) (tab : LabelTable) (pr : List Nat) (sp : List ((Node × Node) × List TPath))
    (ptype alpha : Nat) (start : Int) (u : Node)
    (hn : ∀ l ∈ pr, ∀ v ∈ (tDistances sp ptype u).map (·.1), tab l v = tab l u)
    (hnb : ∀ l ∈ pr, ∀ v ∈ (tDistances sp ptype u).map (·.1), ∀ t, ∀ x ∈ g.neighbors v t, tab l x = tab l v) :
    nodeScoreH g (fun l n => .static (tab l n)) (fun _ => none) pr sp ptype alpha start u
      = .ok (if tDistances sp ptype u = [] then 0 else 1) := by
  rw [nodeScoreH_static, C20P_all_equal g tab pr sp ptype alpha u hn hnb]

end Dynetx
