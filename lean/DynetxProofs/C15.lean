import DynetxModel
/-
  C15 — soundness of the temporal DAG (`Graph.temporalDag`, algorithms/paths.py `temporal_dag`).

  Plan: membership lemmas for `insertNew` folds, an explicit description of one `dagStep`, two fold
  invariants (`DagInv` for an arbitrary list of instants, `DagInvT` for a strictly increasing one), and the
  C15_* theorems derived from them.
-/
namespace Dynetx

/-! ### `insertNew`, `newTargets` -/

section InsertNew
variable {α : Type} [BEq α] [LawfulBEq α]

theorem mem_insertNew {l : List α} {x y : α} : y ∈ insertNew l x ↔ y ∈ l ∨ y = x := by
  unfold insertNew
  split
  · rename_i h
    have hx : x ∈ l := List.contains_iff_mem.mp h
    constructor
    · exact Or.inl
    · rintro (h | rfl)
      · exact h
      · exact hx
  · simp

theorem mem_foldl_insertNew {l acc : List α} {y : α} :
    y ∈ l.foldl insertNew acc ↔ y ∈ acc ∨ y ∈ l := by
  induction l generalizing acc with
  | nil => simp
  | cons a l ih =>
    simp only [List.foldl_cons, ih, mem_insertNew, List.mem_cons]
    constructor
    · rintro ((h | h) | h)
      · exact Or.inl h
      · exact Or.inr (Or.inl h)
      · exact Or.inr (Or.inr h)
    · rintro (h | h | h)
      · exact Or.inl (Or.inl h)
      · exact Or.inl (Or.inr h)
      · exact Or.inr h

end InsertNew

theorem mem_newTargets {v : Option Node} {nb : List Node} {tid : Int} {o : Occ} :
    o ∈ newTargets v nb tid ↔ (o.2 = tid ∧ o.1 ∈ nb ∧ ∀ w, v = some w → o.1 = w) := by
  obtain ⟨y, t⟩ := o
  cases v with
  | none =>
    simp only [newTargets, List.mem_map, Prod.mk.injEq]
    constructor
    · rintro ⟨n, hn, rfl, rfl⟩
      exact ⟨rfl, hn, fun w h => by cases h⟩
    · rintro ⟨rfl, hn, _⟩
      exact ⟨y, hn, rfl, rfl⟩
  | some w =>
    simp only [newTargets]
    split
    · rename_i h
      have hw : w ∈ nb := List.contains_iff_mem.mp h
      simp only [List.mem_singleton, Prod.mk.injEq, Option.some.injEq]
      constructor
      · rintro ⟨rfl, rfl⟩
        exact ⟨rfl, hw, fun w h => h ▸ rfl⟩
      · rintro ⟨rfl, _, h⟩
        exact ⟨h w rfl, rfl⟩
    · rename_i h
      have hw : w ∉ nb := fun hm => h (List.contains_iff_mem.mpr hm)
      simp only [List.not_mem_nil, false_iff, Option.some.injEq]
      rintro ⟨_, hm, h⟩
      exact hw (h w rfl ▸ hm)

/-! ### one iteration of `dagStep`, made explicit -/

abbrev StepAcc := List (Occ × Occ) × List Occ × List Occ × List Occ

/-- the body of the loop over the active occurrences, with projections instead of the pattern -/
def innerF (g : Graph) (v : Option Node) (tid : Int) (acc : StepAcc) (an : Occ) : StepAcc :=
  ((((g.neighbors an.1 (some tid)).map (fun n => (an, (n, tid)))).foldl insertNew acc.1),
   ((newTargets v (g.neighbors an.1 (some tid)) tid).foldl insertNew acc.2.1),
   (acc.2.2.1 ++ (g.neighbors an.1 (some tid)).map (fun n => (n, tid))),
   (if (g.neighbors an.1 (some tid)).isEmpty then acc.2.2.2 ++ [an] else acc.2.2.2))

/-- the accumulator before the loop over the active occurrences (the bare root has been handled) -/
def rootAcc (g : Graph) (u : Node) (v : Option Node) (st : Dag) (tid : Int) : StepAcc :=
  ((((g.neighbors u (some tid)).map (fun n => ((u, tid), (n, tid)))).foldl insertNew st.edges),
   ((newTargets v (g.neighbors u (some tid)) tid).foldl insertNew st.targets),
   ((g.neighbors u (some tid)).map (fun n => (n, tid))),
   [])

theorem dagStep_eq (g : Graph) (u : Node) (v : Option Node) (st : Dag) (tid : Int) :
    dagStep g u v st tid =
      { edges := (st.active.foldl (innerF g v tid) (rootAcc g u v st tid)).1,
        sources := if (g.neighbors u (some tid)).isEmpty then st.sources else insertNew st.sources (u, tid),
        targets := (st.active.foldl (innerF g v tid) (rootAcc g u v st tid)).2.1,
        active := (((st.active.foldl (innerF g v tid) (rootAcc g u v st tid)).2.2.1).foldl insertNew st.active).filter
          (fun a => !((st.active.foldl (innerF g v tid) (rootAcc g u v st tid)).2.2.2).contains a) } := rfl

theorem inner_edges (g : Graph) (v : Option Node) (tid : Int) (act : List Occ) (acc : StepAcc) (e : Occ × Occ) :
    e ∈ (act.foldl (innerF g v tid) acc).1 ↔
      e ∈ acc.1 ∨ ∃ an ∈ act, ∃ n ∈ g.neighbors an.1 (some tid), e = (an, (n, tid)) := by
  induction act generalizing acc with
  | nil => simp
  | cons a act ih =>
    rw [List.foldl_cons, ih]
    simp only [innerF, mem_foldl_insertNew, List.mem_map, List.mem_cons]
    constructor
    · rintro ((h | ⟨n, hn, rfl⟩) | ⟨an, han, n, hn, rfl⟩)
      · exact Or.inl h
      · exact Or.inr ⟨a, Or.inl rfl, n, hn, rfl⟩
      · exact Or.inr ⟨an, Or.inr han, n, hn, rfl⟩
    · rintro (h | ⟨an, rfl | han, n, hn, rfl⟩)
      · exact Or.inl (Or.inl h)
      · exact Or.inl (Or.inr ⟨n, hn, rfl⟩)
      · exact Or.inr ⟨an, han, n, hn, rfl⟩

theorem inner_targets (g : Graph) (v : Option Node) (tid : Int) (act : List Occ) (acc : StepAcc) (o : Occ) :
    o ∈ (act.foldl (innerF g v tid) acc).2.1 ↔
      o ∈ acc.2.1 ∨ ∃ an ∈ act, o ∈ newTargets v (g.neighbors an.1 (some tid)) tid := by
  induction act generalizing acc with
  | nil => simp
  | cons a act ih =>
    rw [List.foldl_cons, ih]
    simp only [innerF, mem_foldl_insertNew, List.mem_cons]
    constructor
    · rintro ((h | h) | ⟨an, han, h⟩)
      · exact Or.inl h
      · exact Or.inr ⟨a, Or.inl rfl, h⟩
      · exact Or.inr ⟨an, Or.inr han, h⟩
    · rintro (h | ⟨an, rfl | han, h⟩)
      · exact Or.inl (Or.inl h)
      · exact Or.inl (Or.inr h)
      · exact Or.inr ⟨an, han, h⟩

theorem inner_toAdd (g : Graph) (v : Option Node) (tid : Int) (act : List Occ) (acc : StepAcc) (o : Occ)
    (h : o ∈ (act.foldl (innerF g v tid) acc).2.2.1) : o ∈ acc.2.2.1 ∨ o.2 = tid := by
  induction act generalizing acc with
  | nil => exact Or.inl h
  | cons a act ih =>
    rw [List.foldl_cons] at h
    rcases ih _ h with h | h
    · simp only [innerF, List.mem_append, List.mem_map] at h
      rcases h with h | ⟨n, _, rfl⟩
      · exact Or.inl h
      · exact Or.inr rfl
    · exact Or.inr h

/-- the edges after one step -/
theorem dagStep_edges (g : Graph) (u : Node) (v : Option Node) (st : Dag) (tid : Int) (e : Occ × Occ) :
    e ∈ (dagStep g u v st tid).edges ↔
      e ∈ st.edges ∨ (∃ n ∈ g.neighbors u (some tid), e = ((u, tid), (n, tid))) ∨
        ∃ an ∈ st.active, ∃ n ∈ g.neighbors an.1 (some tid), e = (an, (n, tid)) := by
  rw [dagStep_eq]
  simp only [inner_edges, rootAcc, mem_foldl_insertNew, List.mem_map]
  constructor
  · rintro ((h | ⟨n, hn, rfl⟩) | h)
    · exact Or.inl h
    · exact Or.inr (Or.inl ⟨n, hn, rfl⟩)
    · exact Or.inr (Or.inr h)
  · rintro (h | ⟨n, hn, rfl⟩ | h)
    · exact Or.inl (Or.inl h)
    · exact Or.inl (Or.inr ⟨n, hn, rfl⟩)
    · exact Or.inr h

/-- the targets after one step -/
theorem dagStep_targets (g : Graph) (u : Node) (v : Option Node) (st : Dag) (tid : Int) (o : Occ) :
    o ∈ (dagStep g u v st tid).targets ↔
      o ∈ st.targets ∨ o ∈ newTargets v (g.neighbors u (some tid)) tid ∨
        ∃ an ∈ st.active, o ∈ newTargets v (g.neighbors an.1 (some tid)) tid := by
  rw [dagStep_eq]
  simp only [inner_targets, rootAcc, mem_foldl_insertNew]
  constructor
  · rintro ((h | h) | h)
    · exact Or.inl h
    · exact Or.inr (Or.inl h)
    · exact Or.inr (Or.inr h)
  · rintro (h | h | h)
    · exact Or.inl (Or.inl h)
    · exact Or.inl (Or.inr h)
    · exact Or.inr h

/-- the sources after one step -/
theorem dagStep_sources (g : Graph) (u : Node) (v : Option Node) (st : Dag) (tid : Int) (o : Occ) :
    o ∈ (dagStep g u v st tid).sources ↔
      o ∈ st.sources ∨ (o = (u, tid) ∧ g.neighbors u (some tid) ≠ []) := by
  rw [dagStep_eq]
  simp only
  split
  · rename_i h
    have : g.neighbors u (some tid) = [] := List.isEmpty_iff.mp h
    simp [this]
  · rename_i h
    have : g.neighbors u (some tid) ≠ [] := fun hh => h (List.isEmpty_iff.mpr hh)
    simp [mem_insertNew, this]

/-- the active occurrences after one step are old ones or occurrences at the current instant -/
theorem dagStep_active (g : Graph) (u : Node) (v : Option Node) (st : Dag) (tid : Int) (a : Occ)
    (h : a ∈ (dagStep g u v st tid).active) : a ∈ st.active ∨ a.2 = tid := by
  rw [dagStep_eq] at h
  simp only [List.mem_filter, mem_foldl_insertNew] at h
  rcases h.1 with h | h
  · exact Or.inl h
  · rcases inner_toAdd _ _ _ _ _ _ h with h | h
    · simp only [rootAcc, List.mem_map] at h
      obtain ⟨n, _, rfl⟩ := h
      exact Or.inr rfl
    · exact Or.inr h


/-! ### the fold invariants -/

/-- invariant of the fold over an arbitrary list of instants; `done` = the instants processed so far -/
structure DagInv (g : Graph) (u : Node) (v : Option Node) (done : List Int) (d : Dag) : Prop where
  edge_sound : ∀ e ∈ d.edges, e.2.1 ∈ g.neighbors e.1.1 (some e.2.2)
  edge_win : ∀ e ∈ d.edges, e.2.2 ∈ done
  sources_iff : ∀ o, o ∈ d.sources ↔ (o.1 = u ∧ o.2 ∈ done ∧ g.neighbors u (some o.2) ≠ [])
  targets_iff : ∀ o, o ∈ d.targets ↔ ((∃ e ∈ d.edges, e.2 = o) ∧ ∀ w, v = some w → o.1 = w)
  source_out : ∀ o ∈ d.sources, ∃ e ∈ d.edges, e.1 = o
  root_edges : ∀ t ∈ done, ∀ n ∈ g.neighbors u (some t), ((u, t), (n, t)) ∈ d.edges

/-- the part of the invariant that needs a strictly increasing list of instants -/
structure DagInvT (done : List Int) (d : Dag) : Prop where
  edge_time : ∀ e ∈ d.edges, e.1.2 < e.2.2 ∨ (e.1 ∈ d.sources ∧ e.1.2 = e.2.2)
  active_win : ∀ a ∈ d.active, a.2 ∈ done

theorem DagInv.empty (g : Graph) (u : Node) (v : Option Node) : DagInv g u v [] Dag.empty := by
  constructor <;> simp [Dag.empty]

theorem DagInvT.empty : DagInvT [] Dag.empty := by
  constructor <;> simp [Dag.empty]

theorem DagInv.step {g : Graph} {u : Node} {v : Option Node} {done : List Int} {st : Dag}
    (h : DagInv g u v done st) (tid : Int) : DagInv g u v (done ++ [tid]) (dagStep g u v st tid) := by
  constructor
  · intro e he
    rcases (dagStep_edges ..).mp he with he | ⟨n, hn, rfl⟩ | ⟨an, _, n, hn, rfl⟩
    · exact h.edge_sound e he
    · exact hn
    · exact hn
  · intro e he
    rw [List.mem_append, List.mem_singleton]
    rcases (dagStep_edges ..).mp he with he | ⟨n, hn, rfl⟩ | ⟨an, _, n, hn, rfl⟩
    · exact Or.inl (h.edge_win e he)
    · exact Or.inr rfl
    · exact Or.inr rfl
  · intro o
    rw [dagStep_sources, h.sources_iff, List.mem_append, List.mem_singleton]
    constructor
    · rintro (⟨h1, h2, h3⟩ | ⟨rfl, h3⟩)
      · exact ⟨h1, Or.inl h2, h3⟩
      · exact ⟨rfl, Or.inr rfl, h3⟩
    · rintro ⟨h1, h2 | h2, h3⟩
      · exact Or.inl ⟨h1, h2, h3⟩
      · obtain ⟨y, t⟩ := o
        simp only at h1 h2 h3
        subst h1 h2
        exact Or.inr ⟨rfl, h3⟩
  · intro o
    rw [dagStep_targets, h.targets_iff, mem_newTargets]
    constructor
    · rintro (⟨⟨e, he, rfl⟩, hv⟩ | ⟨h2, hn, hv⟩ | ⟨an, han, ho⟩)
      · exact ⟨⟨e, (dagStep_edges ..).mpr (Or.inl he), rfl⟩, hv⟩
      · refine ⟨⟨((u, tid), o), (dagStep_edges ..).mpr (Or.inr (Or.inl ⟨o.1, hn, ?_⟩)), rfl⟩, hv⟩
        rw [← h2]
      · rw [mem_newTargets] at ho
        obtain ⟨h2, hn, hv⟩ := ho
        refine ⟨⟨(an, o), (dagStep_edges ..).mpr (Or.inr (Or.inr ⟨an, han, o.1, hn, ?_⟩)), rfl⟩, hv⟩
        rw [← h2]
    · rintro ⟨⟨e, he, rfl⟩, hv⟩
      rcases (dagStep_edges ..).mp he with he | ⟨n, hn, rfl⟩ | ⟨an, han, n, hn, rfl⟩
      · exact Or.inl ⟨⟨e, he, rfl⟩, hv⟩
      · exact Or.inr (Or.inl ⟨rfl, hn, hv⟩)
      · exact Or.inr (Or.inr ⟨an, han, mem_newTargets.mpr ⟨rfl, hn, hv⟩⟩)
  · intro o ho
    rcases (dagStep_sources ..).mp ho with ho | ⟨rfl, hne⟩
    · obtain ⟨e, he, h1⟩ := h.source_out o ho
      exact ⟨e, (dagStep_edges ..).mpr (Or.inl he), h1⟩
    · obtain ⟨n, hn⟩ := List.exists_mem_of_ne_nil _ hne
      exact ⟨((u, tid), (n, tid)), (dagStep_edges ..).mpr (Or.inr (Or.inl ⟨n, hn, rfl⟩)), rfl⟩
  · intro t ht n hn
    rw [List.mem_append, List.mem_singleton] at ht
    rcases ht with ht | rfl
    · exact (dagStep_edges ..).mpr (Or.inl (h.root_edges t ht n hn))
    · exact (dagStep_edges ..).mpr (Or.inr (Or.inl ⟨n, hn, rfl⟩))

theorem DagInvT.step {g : Graph} {u : Node} {v : Option Node} {done : List Int} {st : Dag}
    (h : DagInvT done st) (tid : Int) (hlt : ∀ t ∈ done, t < tid) :
    DagInvT (done ++ [tid]) (dagStep g u v st tid) := by
  constructor
  · intro e he
    rcases (dagStep_edges ..).mp he with he | ⟨n, hn, rfl⟩ | ⟨an, han, n, hn, rfl⟩
    · rcases h.edge_time e he with h1 | ⟨h1, h2⟩
      · exact Or.inl h1
      · exact Or.inr ⟨(dagStep_sources ..).mpr (Or.inl h1), h2⟩
    · exact Or.inr ⟨(dagStep_sources ..).mpr (Or.inr ⟨rfl, List.ne_nil_of_mem hn⟩), rfl⟩
    · exact Or.inl (hlt _ (h.active_win an han))
  · intro a ha
    rw [List.mem_append, List.mem_singleton]
    rcases dagStep_active _ _ _ _ _ _ ha with ha | ha
    · exact Or.inl (h.active_win a ha)
    · exact Or.inr ha

/-- the fold invariant, any list of instants -/
theorem DagInv.foldl {g : Graph} {u : Node} {v : Option Node} (w : List Int) :
    ∀ (done : List Int) (d : Dag), DagInv g u v done d → DagInv g u v (done ++ w) (w.foldl (dagStep g u v) d) := by
  induction w with
  | nil => intro done d h; simpa using h
  | cons t w ih =>
    intro done d h
    have := ih (done ++ [t]) _ (h.step t)
    simpa [List.append_assoc] using this

/-- the fold invariant, strictly increasing instants -/
theorem DagInvT.foldl {g : Graph} {u : Node} {v : Option Node} (w : List Int) :
    ∀ (done : List Int) (d : Dag), DagInvT done d → (done ++ w).Pairwise (· < ·) →
      DagInvT (done ++ w) (w.foldl (dagStep g u v) d) := by
  induction w with
  | nil => intro done d h _; simpa using h
  | cons t w ih =>
    intro done d h hp
    have hlt : ∀ s ∈ done, s < t := by
      intro s hs
      exact (List.pairwise_append.mp hp).2.2 s hs t (List.mem_cons_self)
    have hp' : ((done ++ [t]) ++ w).Pairwise (· < ·) := by simpa [List.append_assoc] using hp
    have := ih (done ++ [t]) _ (h.step (g := g) (u := u) (v := v) t hlt) hp'
    simpa [List.append_assoc] using this

theorem inv_fold (g : Graph) (u : Node) (v : Option Node) (w : List Int) :
    DagInv g u v w (w.foldl (dagStep g u v) Dag.empty) := by
  simpa using DagInv.foldl w [] Dag.empty (DagInv.empty g u v)

theorem invT_fold (g : Graph) (u : Node) (v : Option Node) (w : List Int) (hw : w.Pairwise (· < ·)) :
    DagInvT w (w.foldl (dagStep g u v) Dag.empty) := by
  simpa using DagInvT.foldl (g := g) (u := u) (v := v) w [] Dag.empty DagInvT.empty (by simpa using hw)


/-! ### `minList`, `maxList`, the dagWindow -/

theorem minList_eq_none15 {l : List Int} : minList l = none ↔ l = [] := by
  cases l with
  | nil => simp [minList]
  | cons x xs => simp only [minList]; split <;> simp

theorem maxList_eq_none {l : List Int} : maxList l = none ↔ l = [] := by
  cases l with
  | nil => simp [maxList]
  | cons x xs => simp only [maxList]; split <;> simp

theorem minList_spec15 {l : List Int} {m : Int} (h : minList l = some m) : m ∈ l ∧ ∀ x ∈ l, m ≤ x := by
  induction l generalizing m with
  | nil => simp [minList] at h
  | cons x xs ih =>
    simp only [minList] at h
    split at h
    · rename_i hn
      have : xs = [] := minList_eq_none15.mp hn
      subst this
      simp only [Option.some.injEq] at h
      subst h
      simp
    · rename_i m' hm
      obtain ⟨h1, h2⟩ := ih hm
      simp only [Option.some.injEq] at h
      subst h
      split
      · rename_i hle
        refine ⟨List.mem_cons_self, ?_⟩
        intro y hy
        rcases List.mem_cons.mp hy with rfl | hy
        · exact Int.le_refl _
        · exact Int.le_trans hle (h2 y hy)
      · rename_i hle
        refine ⟨List.mem_cons_of_mem _ h1, ?_⟩
        intro y hy
        rcases List.mem_cons.mp hy with rfl | hy
        · omega
        · exact h2 y hy

theorem maxList_spec {l : List Int} {m : Int} (h : maxList l = some m) : m ∈ l ∧ ∀ x ∈ l, x ≤ m := by
  induction l generalizing m with
  | nil => simp [maxList] at h
  | cons x xs ih =>
    simp only [maxList] at h
    split at h
    · rename_i hn
      have : xs = [] := maxList_eq_none.mp hn
      subst this
      simp only [Option.some.injEq] at h
      subst h
      simp
    · rename_i m' hm
      obtain ⟨h1, h2⟩ := ih hm
      simp only [Option.some.injEq] at h
      subst h
      split
      · rename_i hle
        refine ⟨List.mem_cons_of_mem _ h1, ?_⟩
        intro y hy
        rcases List.mem_cons.mp hy with rfl | hy
        · exact hle
        · exact h2 y hy
      · rename_i hle
        refine ⟨List.mem_cons_self, ?_⟩
        intro y hy
        rcases List.mem_cons.mp hy with rfl | hy
        · exact Int.le_refl _
        · have := h2 y hy
          omega

/-- on a strictly increasing list the minimum is the first element … -/
theorem minList_eq_head? {l : List Int} (hl : l.Pairwise (· < ·)) : minList l = l.head? := by
  cases l with
  | nil => rfl
  | cons x xs =>
    simp only [minList, List.head?_cons]
    split
    · rfl
    · rename_i m hm
      have := (List.pairwise_cons.mp hl).1 m (minList_spec15 hm).1
      rw [if_pos (Int.le_of_lt this)]

/-- … and the maximum is the last one -/
theorem maxList_eq_getLast? {l : List Int} (hl : l.Pairwise (· < ·)) : maxList l = l.getLast? := by
  induction l with
  | nil => rfl
  | cons x xs ih =>
    have hxs := (List.pairwise_cons.mp hl).2
    simp only [maxList]
    split
    · rename_i hn
      have : xs = [] := maxList_eq_none.mp hn
      subst this
      rfl
    · rename_i m hm
      have hlt := (List.pairwise_cons.mp hl).1 m (maxList_spec hm).1
      rw [if_pos (Int.le_of_lt hlt)]
      cases xs with
      | nil => simp [maxList] at hm
      | cons y ys => rw [List.getLast?_cons_cons, ← ih hxs, hm]

/-- the resolved lower bound: `start`, else the smallest snapshot id -/
def winLo (g : Graph) (start : Option Int) : Int := start.getD ((minList g.ids).getD 0)
/-- the resolved upper bound: `stop`, else the largest snapshot id -/
def winHi (g : Graph) (stop : Option Int) : Int := stop.getD ((maxList g.ids).getD 0)

/-- the snapshot ids between the resolved bounds, in the order of `g.ids` -/
def dagWindow (g : Graph) (start stop : Option Int) : List Int :=
  g.ids.filter (fun i => decide (winLo g start ≤ i) && decide (i ≤ winHi g stop))

theorem mem_dagWindow {g : Graph} {start stop : Option Int} {t : Int} :
    t ∈ dagWindow g start stop ↔ (t ∈ g.ids ∧ winLo g start ≤ t ∧ t ≤ winHi g stop) := by
  simp [dagWindow, List.mem_filter]

theorem dagWindow_pairwise {g : Graph} (hids : (g.ids).Pairwise (· < ·)) (start stop : Option Int) :
    (dagWindow g start stop).Pairwise (· < ·) := hids.filter _

/-- a successful `temporalDag` is the fold of `dagStep` over the dagWindow -/
theorem temporalDag_ok {g : Graph} {u : Node} {v : Option Node} {start stop : Option Int} {d : Dag}
    (h : g.temporalDag u v start stop = .ok d) :
    d = (dagWindow g start stop).foldl (dagStep g u v) Dag.empty := by
  unfold Graph.temporalDag at h
  simp only at h
  split at h
  · rename_i lo hi hlo hhi
    split at h
    · cases h
    · simp only [Except.ok.injEq] at h
      rw [← h]
      simp only [dagWindow, winLo, winHi, hlo, hhi, Option.getD_some]
  · rename_i hno
    simp only [Except.ok.injEq] at h
    have hnil : g.ids = [] := by
      cases hlo : minList g.ids with
      | none => exact minList_eq_none15.mp hlo
      | some lo =>
        cases hhi : maxList g.ids with
        | none => exact maxList_eq_none.mp hhi
        | some hi => exact absurd hhi (hno lo hi hlo)
    rw [← h]
    simp [dagWindow, hnil]

/-! ### C15 -/

/-- every edge X@s → Y@t corresponds to Y being a neighbour (successor) of X at t -/
theorem C15_edge_sound (g : Graph) (u : Node) (v : Option Node) (start stop : Option Int) (d : Dag)
    (h : g.temporalDag u v start stop = .ok d) :
    ∀ e ∈ d.edges, e.2.1 ∈ g.neighbors e.1.1 (some e.2.2) := by
  rw [temporalDag_ok h]
  exact (inv_fold g u v _).edge_sound

/-- the arrival time of every edge is a dagWindow instant -/
theorem C15_edge_window_mem (g : Graph) (u : Node) (v : Option Node) (start stop : Option Int) (d : Dag)
    (h : g.temporalDag u v start stop = .ok d) :
    ∀ e ∈ d.edges, e.2.2 ∈ dagWindow g start stop := by
  rw [temporalDag_ok h]
  exact (inv_fold g u v _).edge_win

/-- the same with the bounds resolved explicitly (`lo`/`hi` = smallest/largest snapshot id) -/
theorem C15_edge_window (g : Graph) (u : Node) (v : Option Node) (start stop : Option Int) (d : Dag)
    (lo hi : Int) (hlo : minList g.ids = some lo) (hhi : maxList g.ids = some hi)
    (h : g.temporalDag u v start stop = .ok d) :
    ∀ e ∈ d.edges, start.getD lo ≤ e.2.2 ∧ e.2.2 ≤ stop.getD hi ∧ e.2.2 ∈ g.ids := by
  intro e he
  have := mem_dagWindow.mp (C15_edge_window_mem g u v start stop d h e he)
  simp only [winLo, winHi, hlo, hhi, Option.getD_some] at this
  exact ⟨this.2.1, this.2.2, this.1⟩

/-- an edge goes strictly forward in time, or leaves a recorded source at its own instant -/
theorem C15_edge_time (g : Graph) (u : Node) (v : Option Node) (start stop : Option Int) (d : Dag)
    (hids : (g.ids).Pairwise (· < ·)) (h : g.temporalDag u v start stop = .ok d) :
    ∀ e ∈ d.edges, e.1.2 < e.2.2 ∨ (e.1 ∈ d.sources ∧ e.1.2 = e.2.2) := by
  rw [temporalDag_ok h]
  exact (invT_fold g u v _ (dagWindow_pairwise hids start stop)).edge_time

/-- the sources are exactly the occurrences of the root at the dagWindow instants where it has a neighbour -/
theorem C15_sources (g : Graph) (u : Node) (v : Option Node) (start stop : Option Int) (d : Dag)
    (h : g.temporalDag u v start stop = .ok d) :
    ∀ o, o ∈ d.sources ↔ (o.1 = u ∧ o.2 ∈ dagWindow g start stop ∧ g.neighbors u (some o.2) ≠ []) := by
  rw [temporalDag_ok h]
  exact (inv_fold g u v _).sources_iff

/-- exact description of the targets: heads of edges, restricted to `v` when it is given -/
theorem C15_targets_iff (g : Graph) (u : Node) (v : Option Node) (start stop : Option Int) (d : Dag)
    (h : g.temporalDag u v start stop = .ok d) :
    ∀ o, o ∈ d.targets ↔ ((∃ e ∈ d.edges, e.2 = o) ∧ ∀ w, v = some w → o.1 = w) := by
  rw [temporalDag_ok h]
  exact (inv_fold g u v _).targets_iff

/-- every target is `(y,t)` with `t` in the dagWindow and `y` a neighbour of some `x` at `t`; with `v = some w`
    every target is an occurrence of `w` -/
theorem C15_targets (g : Graph) (u : Node) (v : Option Node) (start stop : Option Int) (d : Dag)
    (h : g.temporalDag u v start stop = .ok d) :
    ∀ o ∈ d.targets, o.2 ∈ dagWindow g start stop ∧ (∃ x, o.1 ∈ g.neighbors x (some o.2)) ∧
      ∀ w, v = some w → o.1 = w := by
  intro o ho
  obtain ⟨⟨e, he, rfl⟩, hv⟩ := (C15_targets_iff g u v start stop d h o).mp ho
  exact ⟨C15_edge_window_mem g u v start stop d h e he, ⟨e.1.1, C15_edge_sound g u v start stop d h e he⟩, hv⟩

theorem mem_dag_nodes {d : Dag} {o : Occ} : o ∈ d.nodes ↔ ∃ e ∈ d.edges, o = e.1 ∨ o = e.2 := by
  simp [Dag.nodes, mem_foldl_insertNew, List.mem_flatMap]

/-- sources have an outgoing edge, targets an incoming one; both are nodes of the DAG -/
theorem C15_sources_targets_nodes (g : Graph) (u : Node) (v : Option Node) (start stop : Option Int) (d : Dag)
    (h : g.temporalDag u v start stop = .ok d) :
    (∀ o ∈ d.sources, (∃ e ∈ d.edges, e.1 = o) ∧ o ∈ d.nodes) ∧
    (∀ o ∈ d.targets, (∃ e ∈ d.edges, e.2 = o) ∧ o ∈ d.nodes) := by
  constructor
  · intro o ho
    have hs : ∀ o ∈ d.sources, ∃ e ∈ d.edges, e.1 = o := by
      rw [temporalDag_ok h]
      exact (inv_fold g u v _).source_out
    obtain ⟨e, he, rfl⟩ := hs o ho
    exact ⟨⟨e, he, rfl⟩, mem_dag_nodes.mpr ⟨e, he, Or.inl rfl⟩⟩
  · intro o ho
    obtain ⟨⟨e, he, rfl⟩, _⟩ := (C15_targets_iff g u v start stop d h o).mp ho
    exact ⟨⟨e, he, rfl⟩, mem_dag_nodes.mpr ⟨e, he, Or.inr rfl⟩⟩

/-- with snapshots present, the call fails exactly on an invalid dagWindow -/
theorem C15_invalid_window (g : Graph) (u : Node) (v : Option Node) (start stop : Option Int)
    (lo hi : Int) (hlo : minList g.ids = some lo) (hhi : maxList g.ids = some hi) :
    g.temporalDag u v start stop = .error .value ↔
      (start.getD lo < lo ∨ start.getD lo > stop.getD hi ∨ stop.getD hi > hi ∨ start.getD lo > hi) := by
  unfold Graph.temporalDag
  simp only [hlo, hhi]
  split
  · rename_i hc
    simp only [Bool.or_eq_true, decide_eq_true_eq] at hc
    simp only [true_iff]
    omega
  · rename_i hc
    simp only [Bool.or_eq_true, decide_eq_true_eq] at hc
    simp only [reduceCtorEq, false_iff]
    omega

/-- the failure is always `ValueError`, and it needs at least one snapshot -/
theorem C15_invalid_window_iff (g : Graph) (u : Node) (v : Option Node) (start stop : Option Int) (err : Err) :
    g.temporalDag u v start stop = .error err ↔
      (err = .value ∧ g.ids ≠ [] ∧ ∃ lo hi, minList g.ids = some lo ∧ maxList g.ids = some hi ∧
        (start.getD lo < lo ∨ start.getD lo > stop.getD hi ∨ stop.getD hi > hi ∨ start.getD lo > hi)) := by
  cases hlo : minList g.ids with
  | none =>
    have hnil := minList_eq_none15.mp hlo
    simp [Graph.temporalDag, hnil, minList, maxList]
  | some lo =>
    cases hhi : maxList g.ids with
    | none =>
      have hnil := maxList_eq_none.mp hhi
      simp [hnil, minList] at hlo
    | some hi =>
      have hne : g.ids ≠ [] := fun hn => by simp [hn, minList] at hlo
      constructor
      · intro h
        have herr : err = .value := by
          unfold Graph.temporalDag at h
          simp only [hlo, hhi] at h
          split at h
          · simp only [Except.error.injEq] at h; exact h.symm
          · cases h
        subst herr
        exact ⟨rfl, hne, lo, hi, rfl, rfl, (C15_invalid_window g u v start stop lo hi hlo hhi).mp h⟩
      · rintro ⟨rfl, _, lo', hi', h1, h2, h3⟩
        simp only [Option.some.injEq] at h1 h2
        subst h1 h2
        exact (C15_invalid_window g u v start stop lo hi hlo hhi).mpr h3

theorem C15_no_snapshots (g : Graph) (u : Node) (v : Option Node) (start stop : Option Int)
    (h : g.ids = []) : g.temporalDag u v start stop = .ok Dag.empty := by
  simp [Graph.temporalDag, h, minList]

/-- acyclicity: when the root has no self-loop at a dagWindow instant, `2·time + [node ≠ u]` strictly
    increases along every edge -/
theorem C15_acyclic (g : Graph) (u : Node) (v : Option Node) (start stop : Option Int) (d : Dag)
    (hids : (g.ids).Pairwise (· < ·)) (h : g.temporalDag u v start stop = .ok d)
    (hloop : ∀ t ∈ dagWindow g start stop, u ∉ g.neighbors u (some t)) :
    ∃ f : Occ → Int, (∀ o, f o = 2 * o.2 + (if o.1 = u then 0 else 1)) ∧ ∀ e ∈ d.edges, f e.1 < f e.2 := by
  refine ⟨fun o => 2 * o.2 + (if o.1 = u then 0 else 1), fun _ => rfl, ?_⟩
  intro e he
  have hb1 : ∀ (b : Prop) [Decidable b], (0 : Int) ≤ (if b then 0 else 1) ∧ (if b then (0 : Int) else 1) ≤ 1 := by
    intro b _; split <;> omega
  rcases C15_edge_time g u v start stop d hids h e he with hlt | ⟨hsrc, heq⟩
  · have h1 := hb1 (e.1.1 = u)
    have h2 := hb1 (e.2.1 = u)
    simp only
    omega
  · have hu : e.1.1 = u := ((C15_sources g u v start stop d h e.1).mp hsrc).1
    have hnb := C15_edge_sound g u v start stop d h e he
    have hw := C15_edge_window_mem g u v start stop d h e he
    have hne : e.2.1 ≠ u := by
      intro hh
      rw [hu, hh] at hnb
      exact hloop _ hw hnb
    simp only [hu, hne, if_true, if_false]
    omega


/-- the root's edges are all there: `u@t → n@t` for every dagWindow instant `t` and neighbour `n` of `u` at `t` -/
theorem C15_root_edges (g : Graph) (u : Node) (v : Option Node) (start stop : Option Int) (d : Dag)
    (h : g.temporalDag u v start stop = .ok d) :
    ∀ t ∈ dagWindow g start stop, ∀ n ∈ g.neighbors u (some t), ((u, t), (n, t)) ∈ d.edges := by
  rw [temporalDag_ok h]
  exact (inv_fold g u v _).root_edges

/-- a non-empty walk along the edges -/
inductive DagWalk (d : Dag) : Occ → Occ → Prop
  | single {a b : Occ} : (a, b) ∈ d.edges → DagWalk d a b
  | cons {a b c : Occ} : (a, b) ∈ d.edges → DagWalk d b c → DagWalk d a c

/-- no closed walk exactly when the root has no self-loop at a dagWindow instant -/
theorem C15_acyclic_walk (g : Graph) (u : Node) (v : Option Node) (start stop : Option Int) (d : Dag)
    (hids : (g.ids).Pairwise (· < ·)) (h : g.temporalDag u v start stop = .ok d) :
    (∀ a b, DagWalk d a b → a ≠ b) ↔ ∀ t ∈ dagWindow g start stop, u ∉ g.neighbors u (some t) := by
  constructor
  · intro hw t ht hn
    exact hw _ _ (DagWalk.single (C15_root_edges g u v start stop d h t ht u hn)) rfl
  · intro hloop a b hab
    obtain ⟨f, _, hf⟩ := C15_acyclic g u v start stop d hids h hloop
    have : f a < f b := by
      induction hab with
      | single he => exact hf _ he
      | cons he _ ih => exact Int.lt_trans (hf _ he) ih
    intro heq
    rw [heq] at this
    exact Int.lt_irrefl _ this

/-! ### non-vacuity -/

/-- accumulative undirected graph: 1–2 from instant 0, 2–3 from instant 1 -/
def c15G : Graph :=
  (((Graph.empty false false).addInteraction 1 2 (some 0) none).1.addInteraction 2 3 (some 1) none).1

theorem c15G_ids : c15G.ids = [0, 1] := by
  have : c15G.snaps.map (·.1) = [0, 1] := by decide
  rw [Graph.ids, this]
  simp [List.mergeSort]

example : (c15G.temporalDag 1 none none none).toOption.map (fun d => (d.edges, d.sources, d.targets)) =
    some ([((1, 0), 2, 0), ((1, 1), 2, 1), ((2, 0), 1, 1), ((2, 0), 3, 1)], [(1, 0), (1, 1)],
      [(2, 0), (2, 1), (1, 1), (3, 1)]) := by
  unfold Graph.temporalDag
  rw [c15G_ids]
  decide

example : (c15G.temporalDag 1 (some 3) none none).toOption.map (fun d => d.targets) = some [(3, 1)] := by
  unfold Graph.temporalDag
  rw [c15G_ids]
  decide

example : (c15G.temporalDag 1 (some 3) (some 1) (some 5)).toOption.map (fun d => d.edges) = none := by
  unfold Graph.temporalDag
  rw [c15G_ids]
  decide

end Dynetx

