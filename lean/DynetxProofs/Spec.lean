import DynetxModel
/-
  The abstract side: API calls as operations, histories, and the log of accepted spans.
  Nothing here is proved; these are the definitions the property statements are written with.
-/
namespace Dynetx

/-- one call of the add family, as the list of `add_interaction` calls it is defined to make:
    `add_interaction(u,v,t,e)` = `⟨[(u,v)], t, e⟩`, `add_interactions_from(es,t,e)` = `⟨es,t,e⟩`,
    `add_path(ns,t)` = `⟨pathPairs ns, t, none⟩`, likewise star and cycle (method and `dn.` forms) -/
structure Op where
  pairs : List (Node × Node)
  t : Option Int
  e : Option Int
  deriving Repr

def Op.add (u v : Node) (t e : Option Int) : Op := ⟨[(u, v)], t, e⟩
def Op.path (ns : List Node) (t : Option Int) : Op := ⟨pathPairs ns, t, none⟩
def Op.star (ns : List Node) (t : Option Int) : Op := ⟨starPairs ns, t, none⟩
def Op.cycle (ns : List Node) (t : Option Int) : Op := ⟨cyclePairs ns, t, none⟩

/-- the model's transition for an operation -/
def Graph.step (g : Graph) (op : Op) : Graph × Option Err := g.addInteractionsFrom op.pairs op.t op.e

/-- a history: the states and the outcome of every call (Python keeps going after a caught exception) -/
def Graph.run (g : Graph) : List Op → Graph × List (Option Err)
  | [] => (g, [])
  | op :: rest =>
    let r := g.step op
    let rr := Graph.run r.1 rest
    (rr.1, r.2 :: rr.2)

/-- an accepted span: pair and closed interval -/
abbrev Accepted := Node × Node × Int × Int

/-- the spans accepted by the elements of one bulk call (mirrors `addFromGo`: stops at the first exception) -/
def Graph.goLog (g : Graph) (t0 : Int) (e : Option Int) : List (Node × Node) → List Accepted
  | [] => []
  | (u, v) :: rest =>
    match g.addInteraction u v (some t0) e with
    | (g', none) =>
      (match spanEnd t0 (g.effE e) with
        | some t1 => [(u, v, t0, t1)]
        | none => []) ++ Graph.goLog g' t0 e rest
    | (_, some _) => []

def Graph.stepLog (g : Graph) (op : Op) : List Accepted :=
  match op.t with
  | none => []
  | some t0 => g.goLog t0 op.e op.pairs

/-- the log of a history: every span that some call accepted, i.e. `{t}` for a call without vanishing
    time, `t..e-1` for a call with vanishing time `e` (nothing for an empty span) -/
def Graph.runLog (g : Graph) : List Op → List Accepted
  | [] => []
  | op :: rest => g.stepLog op ++ Graph.runLog (g.step op).1 rest

/-- `x` lies in a logged span of the pair `(a,b)` -/
def inLog (d : Bool) (log : List Accepted) (a b : Node) (x : Int) : Prop :=
  ∃ s ∈ log, sameKey d s.1 s.2.1 a b = true ∧ s.2.2.1 ≤ x ∧ x ≤ s.2.2.2

def everLogged (d : Bool) (log : List Accepted) (a b : Node) : Prop :=
  ∃ s ∈ log, sameKey d s.1 s.2.1 a b = true

end Dynetx
