-- C18 (text layer): the readers skip noise rows; the graph read is the graph of the remaining rows
import DynetxModel

namespace Dynetx

open List

/-! ### 1. snapshots: noisy text = clean rows -/

/-- rows produced up to (excluding) the first `.bad` line, and whether a `.bad` line was met -/
def c18t_cleanS (cm : Char) (delim : Option Char) :
    List (List Char) → List (Node × Node × Int × Option Int) × Bool
  | [] => ([], false)
  | l :: rest =>
    match snapRow cm delim l with
    | .skip => c18t_cleanS cm delim rest
    | .bad => ([], true)
    | .row u v t e => ((u, v, t, e) :: (c18t_cleanS cm delim rest).1, (c18t_cleanS cm delim rest).2)

/-- what the reader returns given the outcome on the clean rows and the bad-line flag -/
def c18t_finish (r : Graph × Option Err) (bad : Bool) : Graph × Option Err :=
  if r.2.isSome then r else if bad then (r.1, some .type) else r

theorem c18t_goS (cm : Char) (delim : Option Char) (g : Graph) (lines : List (List Char)) :
    parseSnapshotsText.go cm delim g lines
      = c18t_finish (g.addMany (c18t_cleanS cm delim lines).1) (c18t_cleanS cm delim lines).2 := by
  induction lines generalizing g with
  | nil => simp [parseSnapshotsText.go, c18t_cleanS, Graph.addMany, c18t_finish]
  | cons l rest ih =>
    unfold parseSnapshotsText.go c18t_cleanS
    cases h : snapRow cm delim l with
    | skip => simp only []; exact ih g
    | bad => simp [Graph.addMany, c18t_finish]
    | row u v t e =>
      simp only [Graph.addMany]
      rcases h2 : g.addInteraction u v (some t) e with ⟨g', _ | err⟩
      · simp only []; exact ih g'
      · simp [c18t_finish]

theorem C18_snapshots_noise (directed : Bool) (cm : Char) (delim : Option Char) (lines : List (List Char)) :
    parseSnapshotsText directed cm delim lines
      = (let (rows, bad) := c18t_cleanS cm delim lines
         let r := (Graph.empty directed true).addMany rows
         if r.2.isSome then r else if bad then (r.1, some .type) else r) := by
  unfold parseSnapshotsText
  rw [c18t_goS]
  rfl

theorem c18t_cleanS_flag (cm : Char) (delim : Option Char) (lines : List (List Char)) :
    (c18t_cleanS cm delim lines).2 = true ↔ ∃ l ∈ lines, snapRow cm delim l = .bad := by
  induction lines with
  | nil => simp [c18t_cleanS]
  | cons l rest ih =>
    unfold c18t_cleanS
    cases h : snapRow cm delim l <;> simp [h, ih]

theorem C18_snapshots_clean (directed : Bool) (cm : Char) (delim : Option Char) (lines : List (List Char))
    (hclean : ∀ l ∈ lines, snapRow cm delim l ≠ .bad) :
    parseSnapshotsText directed cm delim lines
      = parseSnapshots directed (c18t_cleanS cm delim lines).1 := by
  have hb : (c18t_cleanS cm delim lines).2 = false := by
    cases hf : (c18t_cleanS cm delim lines).2 with
    | false => rfl
    | true =>
      obtain ⟨l, hl, hbad⟩ := (c18t_cleanS_flag cm delim lines).mp hf
      exact absurd hbad (hclean l hl)
  unfold parseSnapshotsText parseSnapshots
  rw [c18t_goS, hb]
  simp [c18t_finish]

/-! ### 2. interactions -/

def c18t_cleanI (cm : Char) (delim : Option Char) : List (List Char) → List Ev × Bool
  | [] => ([], false)
  | l :: rest =>
    match intRow cm delim l with
    | .skip => c18t_cleanI cm delim rest
    | .bad => ([], true)
    | .row r => (r :: (c18t_cleanI cm delim rest).1, (c18t_cleanI cm delim rest).2)

theorem c18t_goI (cm : Char) (delim : Option Char) (g : Graph) (lines : List (List Char)) :
    parseInteractionsText.go cm delim g lines
      = c18t_finish (g.replayRows (c18t_cleanI cm delim lines).1) (c18t_cleanI cm delim lines).2 := by
  induction lines generalizing g with
  | nil => simp [parseInteractionsText.go, c18t_cleanI, Graph.replayRows, c18t_finish]
  | cons l rest ih =>
    unfold parseInteractionsText.go c18t_cleanI
    cases h : intRow cm delim l with
    | skip => simp only []; exact ih g
    | bad => simp [Graph.replayRows, c18t_finish]
    | row r =>
      simp only [Graph.replayRows]
      rcases h2 : g.replayRow r with ⟨g', _ | err⟩
      · simp only []; exact ih g'
      · simp [c18t_finish]

theorem C18_interactions_noise (directed : Bool) (cm : Char) (delim : Option Char) (lines : List (List Char)) :
    parseInteractionsText directed cm delim lines
      = (let (rows, bad) := c18t_cleanI cm delim lines
         let r := (Graph.empty directed true).replayRows rows
         if r.2.isSome then r else if bad then (r.1, some .type) else r) := by
  unfold parseInteractionsText
  rw [c18t_goI]
  rfl

theorem c18t_cleanI_flag (cm : Char) (delim : Option Char) (lines : List (List Char)) :
    (c18t_cleanI cm delim lines).2 = true ↔ ∃ l ∈ lines, intRow cm delim l = .bad := by
  induction lines with
  | nil => simp [c18t_cleanI]
  | cons l rest ih =>
    unfold c18t_cleanI
    cases h : intRow cm delim l <;> simp [h, ih]

theorem C18_interactions_clean (directed : Bool) (cm : Char) (delim : Option Char) (lines : List (List Char))
    (hclean : ∀ l ∈ lines, intRow cm delim l ≠ .bad) :
    parseInteractionsText directed cm delim lines
      = parseInteractions directed (c18t_cleanI cm delim lines).1 := by
  have hb : (c18t_cleanI cm delim lines).2 = false := by
    cases hf : (c18t_cleanI cm delim lines).2 with
    | false => rfl
    | true =>
      obtain ⟨l, hl, hbad⟩ := (c18t_cleanI_flag cm delim lines).mp hf
      exact absurd hbad (hclean l hl)
  unfold parseInteractionsText parseInteractions
  rw [c18t_goI, hb]
  simp [c18t_finish]

/-! ### 3. which lines are skipped -/

theorem c18t_fieldsOf_nil (cm : Char) (delim : Option Char) : fieldsOf cm delim [] = none := by
  simp [fieldsOf, cutComment]

theorem C18_skip_empty (cm : Char) (delim : Option Char) :
    snapRow cm delim [] = .skip ∧ intRow cm delim [] = .skip := by
  simp [snapRow, intRow, c18t_fieldsOf_nil]

theorem c18t_fieldsOf_comment (cm : Char) (delim : Option Char) (rest : List Char) :
    fieldsOf cm delim (cm :: rest) = none := by
  simp [fieldsOf, cutComment]

/-- a line starting with the comment marker is skipped -/
theorem C18_skip_comment (cm : Char) (delim : Option Char) (rest : List Char) :
    snapRow cm delim (cm :: rest) = .skip ∧ intRow cm delim (cm :: rest) = .skip := by
  simp [snapRow, intRow, c18t_fieldsOf_comment]

theorem c18t_cutComment_notin (cm : Char) (l : List Char) (h : cm ∉ l) : cutComment cm l = l := by
  induction l with
  | nil => rfl
  | cons c cs ih =>
    have hc : c ≠ cm := fun e => h (by simp [e])
    have hcs : cm ∉ cs := fun e => h (by simp [e])
    simp [cutComment, hc, ih hcs]

theorem c18t_cutComment_append (cm : Char) (l rest : List Char) (h : cm ∉ l) :
    cutComment cm (l ++ cm :: rest) = l := by
  induction l with
  | nil => simp [cutComment]
  | cons c cs ih =>
    have hc : c ≠ cm := fun e => h (by simp [e])
    have hcs : cm ∉ cs := fun e => h (by simp [e])
    simp [cutComment, hc, ih hcs]

theorem c18t_stripL_ws (l : List Char) (h : ∀ c ∈ l, isWs c = true) : stripL l = [] := by
  induction l with
  | nil => rfl
  | cons c cs ih =>
    have hc : isWs c = true := h c (by simp)
    simp [stripL, hc, ih (fun c hc => h c (by simp [hc]))]

theorem c18t_strip_ws (l : List Char) (h : ∀ c ∈ l, isWs c = true) : strip l = [] := by
  simp [strip, c18t_stripL_ws l h, stripL]

/-- the fields of a whitespace-only line: none at all with the default delimiter -/
theorem c18t_fieldsOf_blank (cm : Char) (l : List Char) (h : ∀ c ∈ l, isWs c = true)
    (hcm : ∀ c ∈ l, c ≠ cm) : fieldsOf cm none l = none ∨ fieldsOf cm none l = some [] := by
  have hnot : cm ∉ l := fun hm => hcm cm hm rfl
  unfold fieldsOf
  simp only [c18t_cutComment_notin cm l hnot, c18t_strip_ws l h]
  cases l with
  | nil => simp
  | cons c cs => simp [splitWs, splitWs.go]

/-- whitespace-only lines are skipped (default delimiter) -/
theorem C18_skip_blank (cm : Char) (l : List Char) (h : ∀ c ∈ l, isWs c = true)
    (hcm : ∀ c ∈ l, c ≠ cm) : snapRow cm none l = .skip ∧ intRow cm none l = .skip := by
  rcases c18t_fieldsOf_blank cm l h hcm with hf | hf <;> simp [snapRow, intRow, hf]

/-- a whitespace-only line has the single empty field under an explicit delimiter -/
theorem c18t_fieldsOf_blank_delim (cm d : Char) (l : List Char) (h : ∀ c ∈ l, isWs c = true)
    (hcm : ∀ c ∈ l, c ≠ cm) : fieldsOf cm (some d) l = none ∨ fieldsOf cm (some d) l = some [[]] := by
  have hnot : cm ∉ l := fun hm => hcm cm hm rfl
  unfold fieldsOf
  simp only [c18t_cutComment_notin cm l hnot, c18t_strip_ws l h]
  cases l with
  | nil => simp
  | cons c cs => simp [splitOnChar]

/-- whitespace-only lines are skipped (explicit delimiter; `isWs d = false` and `d ≠ cm` are not
    even needed: the stripped line is empty, so `split(d)` returns the single empty field) -/
theorem C18_skip_blank_delim (cm d : Char) (l : List Char) (h : ∀ c ∈ l, isWs c = true)
    (hcm : ∀ c ∈ l, c ≠ cm) :
    snapRow cm (some d) l = .skip ∧ intRow cm (some d) l = .skip := by
  rcases c18t_fieldsOf_blank_delim cm d l h hcm with hf | hf <;> simp [snapRow, intRow, hf]

/-- text after the comment marker is ignored -/
theorem C18_comment_ignored_fields (cm : Char) (delim : Option Char) (l rest : List Char) (h : cm ∉ l) :
    fieldsOf cm delim (l ++ cm :: rest) = fieldsOf cm delim l := by
  unfold fieldsOf
  rw [c18t_cutComment_append cm l rest h, c18t_cutComment_notin cm l h]

theorem C18_comment_ignored (cm : Char) (delim : Option Char) (l rest : List Char) (h : cm ∉ l) :
    snapRow cm delim (l ++ cm :: rest) = snapRow cm delim l
      ∧ intRow cm delim (l ++ cm :: rest) = intRow cm delim l := by
  unfold snapRow intRow
  rw [C18_comment_ignored_fields cm delim l rest h]
  exact ⟨rfl, rfl⟩

/-- rows with fewer than three fields (snapshots) / other than four fields (interactions) are skipped -/
theorem C18_short_rows (cm : Char) (delim : Option Char) (line : List Char) (fs : List (List Char))
    (hf : fieldsOf cm delim line = some fs) :
    (fs.length < 3 → snapRow cm delim line = .skip) ∧ (fs.length ≠ 4 → intRow cm delim line = .skip) := by
  unfold snapRow intRow
  rw [hf]
  constructor
  · intro hl
    match fs, hl with
    | [], _ => rfl
    | [_], _ => rfl
    | [_, _], _ => rfl
    | _ :: _ :: _ :: _, hl => simp at hl; omega
  · intro hl
    match fs, hl with
    | [], _ => rfl
    | [_], _ => rfl
    | [_, _], _ => rfl
    | [_, _, _], _ => rfl
    | [_, _, _, _], hl => simp at hl
    | _ :: _ :: _ :: _ :: _ :: _, _ => rfl

/-- a snapshot line raises `TypeError` iff it has at least three fields and one of the node /
    timestamp fields actually used cannot be converted -/
theorem C18_bad_iff_snap (cm : Char) (delim : Option Char) (line : List Char) :
    snapRow cm delim line = .bad ↔
      ∃ fs, fieldsOf cm delim line = some fs ∧ ∃ h3 : 3 ≤ fs.length,
        (nodeOf fs[0] = none ∨ nodeOf fs[1] = none ∨ intOf fs[2] = none
          ∨ ∃ h4 : 4 ≤ fs.length, intOf fs[3] = none) := by
  unfold snapRow
  cases hf : fieldsOf cm delim line with
  | none => simp
  | some fs =>
    match fs with
    | [] => simp
    | [_] => simp
    | [_, _] => simp
    | [u, v, t] =>
      cases hu : nodeOf u <;> cases hv : nodeOf v <;> cases ht : intOf t <;> simp [hu, hv, ht]
    | u :: v :: t :: e :: rest =>
      cases hu : nodeOf u <;> cases hv : nodeOf v <;> cases ht : intOf t <;> cases he : intOf e <;> simp [hu, hv, ht, he]

theorem C18_bad_iff_int (cm : Char) (delim : Option Char) (line : List Char) :
    intRow cm delim line = .bad ↔
      ∃ fs, fieldsOf cm delim line = some fs ∧ ∃ h4 : fs.length = 4,
        (nodeOf fs[0] = none ∨ nodeOf fs[1] = none ∨ intOf fs[3] = none) := by
  unfold intRow
  cases hf : fieldsOf cm delim line with
  | none => simp
  | some fs =>
    match fs with
    | [] => simp
    | [_] => simp
    | [_, _] => simp
    | [_, _, _] => simp
    | [u, v, op, t] =>
      cases hu : nodeOf u <;> cases hv : nodeOf v <;> cases ht : intOf t <;> simp [hu, hv, ht]
    | _ :: _ :: _ :: _ :: _ :: _ => simp

theorem C18_bad_iff (cm : Char) (delim : Option Char) (line : List Char) :
    (snapRow cm delim line = .bad ↔
      ∃ fs, fieldsOf cm delim line = some fs ∧ ∃ h3 : 3 ≤ fs.length,
        (nodeOf fs[0] = none ∨ nodeOf fs[1] = none ∨ intOf fs[2] = none
          ∨ ∃ h4 : 4 ≤ fs.length, intOf fs[3] = none))
    ∧ (intRow cm delim line = .bad ↔
      ∃ fs, fieldsOf cm delim line = some fs ∧ ∃ h4 : fs.length = 4,
        (nodeOf fs[0] = none ∨ nodeOf fs[1] = none ∨ intOf fs[3] = none)) :=
  ⟨C18_bad_iff_snap cm delim line, C18_bad_iff_int cm delim line⟩

/-- with four or more fields only the first four are used by `snapRow` -/
theorem C18_extra_columns (cm : Char) (delim : Option Char) (line line' : List Char)
    (fs : List (List Char)) (hf : fieldsOf cm delim line = some fs) (h4 : 4 ≤ fs.length)
    (hf' : fieldsOf cm delim line' = some (fs.take 4)) :
    snapRow cm delim line = snapRow cm delim line' := by
  unfold snapRow
  rw [hf, hf']
  match fs, h4 with
  | u :: v :: t :: e :: rest, _ => simp

/-- the same, as the explicit value -/
theorem C18_extra_columns_value (cm : Char) (delim : Option Char) (line : List Char)
    (u v t e : List Char) (extra : List (List Char))
    (hf : fieldsOf cm delim line = some (u :: v :: t :: e :: extra)) :
    snapRow cm delim line =
      (match nodeOf u, nodeOf v, intOf t, intOf e with
        | some u, some v, some t, some e => .row u v t (some e)
        | _, _, _, _ => .bad) := by
  simp only [snapRow, hf]
  cases nodeOf u <;> cases nodeOf v <;> cases intOf t <;> cases intOf e <;> rfl

/-! ### 4. the delimiter is honoured -/

/-- `d.join(fs)` -/
def c18t_join (d : Char) : List (List Char) → List Char
  | [] => []
  | [f] => f
  | f :: g :: fs => f ++ d :: c18t_join d (g :: fs)

theorem c18t_splitOnChar_ne_nil (d : Char) (l : List Char) : splitOnChar d l ≠ [] := by
  induction l with
  | nil => simp [splitOnChar]
  | cons c cs ih =>
    unfold splitOnChar
    split
    · simp
    · split <;> simp

/-- a prefix without the delimiter stays in the first field -/
theorem c18t_splitOnChar_prefix (d : Char) (f rest : List Char) (hd : List Char) (tl : List (List Char))
    (h : d ∉ f) (hr : splitOnChar d rest = hd :: tl) :
    splitOnChar d (f ++ rest) = (f ++ hd) :: tl := by
  induction f with
  | nil => simpa using hr
  | cons c cs ih =>
    have hc : c ≠ d := fun e => h (by simp [e])
    have hcs : d ∉ cs := fun e => h (by simp [e])
    simp only [List.cons_append, splitOnChar, ih hcs]
    simp [hc]

theorem c18t_splitOnChar_nodelim (d : Char) (f : List Char) (h : d ∉ f) : splitOnChar d f = [f] := by
  have := c18t_splitOnChar_prefix d f [] [] [] h (by simp [splitOnChar])
  simpa using this

/-- `d.join(fs).split(d) = fs` for a non-empty list of fields without the delimiter -/
theorem c18t_splitOnChar_join (d : Char) (fs : List (List Char)) (hne : fs ≠ [])
    (h : ∀ f ∈ fs, d ∉ f) : splitOnChar d (c18t_join d fs) = fs := by
  induction fs with
  | nil => exact absurd rfl hne
  | cons f rest ih =>
    cases rest with
    | nil => simpa [c18t_join] using c18t_splitOnChar_nodelim d f (h f (by simp))
    | cons g gs =>
      have ih' := ih (by simp) (fun x hx => h x (by simp [hx]))
      have hstep : splitOnChar d (d :: c18t_join d (g :: gs)) = [] :: g :: gs := by
        simp [splitOnChar, ih']
      have := c18t_splitOnChar_prefix d f _ _ _ (h f (by simp)) hstep
      simpa [c18t_join] using this

/-- characters that are not whitespace accumulate in the current field -/
theorem c18t_splitWs_go_prefix (f cur rest : List Char) (h : ∀ c ∈ f, isWs c = false) :
    splitWs.go cur (f ++ rest) = splitWs.go (f.reverse ++ cur) rest := by
  induction f generalizing cur with
  | nil => simp
  | cons c cs ih =>
    have hc : isWs c = false := h c (by simp)
    simp only [List.cons_append, splitWs.go, hc]
    rw [ih (c :: cur) (fun x hx => h x (by simp [hx]))]
    simp

/-- `' '.join(fs).split() = fs` for non-empty fields without whitespace -/
theorem c18t_splitWs_join (fs : List (List Char)) (hne : ∀ f ∈ fs, f ≠ [])
    (h : ∀ f ∈ fs, ∀ c ∈ f, isWs c = false) : splitWs (c18t_join ' ' fs) = fs := by
  unfold splitWs
  induction fs with
  | nil => simp [c18t_join, splitWs.go]
  | cons f rest ih =>
    have hf := h f (by simp)
    have hfne : f ≠ [] := hne f (by simp)
    cases rest with
    | nil =>
      have := c18t_splitWs_go_prefix f [] [] hf
      simp only [List.append_nil] at this
      simp [c18t_join, this, splitWs.go, hfne]
    | cons g gs =>
      have ih' := ih (fun x hx => hne x (by simp [hx])) (fun x hx => h x (by simp [hx]))
      have hws : isWs ' ' = true := by decide
      simp only [c18t_join]
      rw [c18t_splitWs_go_prefix f [] _ hf]
      simp only [List.append_nil, splitWs.go, hws]
      simp [hfne, ih']

/-! ### 5. keys=True -/

/-- `s.split(delim)` -/
def c18t_split (delim : Option Char) (s : List Char) : List (List Char) :=
  match delim with | none => splitWs s | some d => splitOnChar d s

theorem c18t_fieldsOf_eq (cm : Char) (delim : Option Char) (l : List Char) :
    fieldsOf cm delim l =
      if (cutComment cm l).isEmpty then none else some (c18t_split delim (strip (cutComment cm l))) := rfl

/-- the timestamp fields `read_ids` converts on one line (snapshots) -/
def c18t_idFieldsS (cm : Char) (delim : Option Char) (l : List Char) : Option (List Int) :=
  let s := c18t_split delim (strip (cutComment cm l))
  (if s.length ≥ 3 then (s.drop 2).take 2 else []).mapM intOf

theorem c18t_idsGo_cons (cm : Char) (delim : Option Char) (acc : List Int) (l : List Char)
    (rest : List (List Char)) :
    readIdsText.go false cm delim acc (l :: rest) =
      (match c18t_idFieldsS cm delim l with
        | none => .error .type
        | some ts => readIdsText.go false cm delim (acc ++ ts) rest) := by
  rfl

/-- the timestamps of one classified line -/
def c18t_tsOfRow : RowS → List Int
  | .row _ _ t e => t :: e.toList
  | _ => []

theorem c18t_strip_nil : strip [] = [] := by simp [strip, stripL]

/-- on a line that is not `.bad`, `read_ids` converts exactly the timestamps of the row (nothing on a
    skipped line), although it does not test for the empty line before splitting -/
theorem c18t_idFieldsS_eq (cm : Char) (delim : Option Char) (l : List Char)
    (h : snapRow cm delim l ≠ .bad) :
    c18t_idFieldsS cm delim l = some (c18t_tsOfRow (snapRow cm delim l)) := by
  unfold snapRow at *
  rw [c18t_fieldsOf_eq] at *
  unfold c18t_idFieldsS
  by_cases hemp : (cutComment cm l).isEmpty = true
  · have : cutComment cm l = [] := by simpa using hemp
    cases delim <;> simp [this, c18t_split, c18t_strip_nil, splitWs, splitWs.go, splitOnChar, c18t_tsOfRow]
  · simp only [hemp] at h ⊢
    generalize c18t_split delim (strip (cutComment cm l)) = s at h ⊢
    match s with
    | [] => simp [c18t_tsOfRow]
    | [_] => simp [c18t_tsOfRow]
    | [_, _] => simp [c18t_tsOfRow]
    | [u, v, t] =>
      cases hu : nodeOf u <;> cases hv : nodeOf v <;> cases ht : intOf t <;>
        simp [hu, hv, ht, c18t_tsOfRow] at h ⊢
    | u :: v :: t :: e :: rest =>
      cases hu : nodeOf u <;> cases hv : nodeOf v <;> cases ht : intOf t <;> cases he : intOf e <;>
        simp [hu, hv, ht, he, c18t_tsOfRow] at h ⊢

theorem c18t_cleanS_cons (cm : Char) (delim : Option Char) (l : List Char) (rest : List (List Char)) :
    c18t_cleanS cm delim (l :: rest) =
      (match snapRow cm delim l with
        | .skip => c18t_cleanS cm delim rest
        | .bad => ([], true)
        | .row u v t e => ((u, v, t, e) :: (c18t_cleanS cm delim rest).1, (c18t_cleanS cm delim rest).2)) := rfl

/-- the timestamp fields of the clean rows, in file order -/
def c18t_rowTs (rows : List (Node × Node × Int × Option Int)) : List Int :=
  rows.flatMap (fun (_, _, t, e) => t :: e.toList)

theorem c18t_idsGoS (cm : Char) (delim : Option Char) (acc : List Int) (lines : List (List Char))
    (hclean : ∀ l ∈ lines, snapRow cm delim l ≠ .bad) :
    readIdsText.go false cm delim acc lines
      = .ok (acc ++ c18t_rowTs (c18t_cleanS cm delim lines).1) := by
  induction lines generalizing acc with
  | nil => simp [readIdsText.go, c18t_cleanS, c18t_rowTs]
  | cons l rest ih =>
    have hl := hclean l (by simp)
    have hrest : ∀ x ∈ rest, snapRow cm delim x ≠ .bad := fun x hx => hclean x (by simp [hx])
    rw [c18t_idsGo_cons, c18t_idFieldsS_eq cm delim l hl]
    simp only []
    rw [ih _ hrest]
    rw [c18t_cleanS_cons]
    cases hr : snapRow cm delim l with
    | skip => simp [c18t_tsOfRow]
    | bad => exact absurd hr hl
    | row u v t e => simp [c18t_tsOfRow, c18t_rowTs]

/-- `read_ids` on a file without unconvertible rows: the compacted timestamps of the clean rows -/
theorem c18t_readIdsS (cm : Char) (delim : Option Char) (lines : List (List Char))
    (hclean : ∀ l ∈ lines, snapRow cm delim l ≠ .bad) :
    readIdsText false cm delim lines
      = .ok (compactTimeslot (snapshotTimestamps (c18t_cleanS cm delim lines).1)) := by
  unfold readIdsText
  rw [c18t_idsGoS cm delim [] lines hclean]
  simp [snapshotTimestamps, c18t_rowTs]

/-- replace each timestamp of a snapshot row by `rk` of it -/
def c18t_rankS (rk : Int → Int) (r : Node × Node × Int × Option Int) : Node × Node × Int × Option Int :=
  (r.1, r.2.1, rk r.2.2.1, r.2.2.2.map rk)

theorem c18t_keysGoS (cm : Char) (delim : Option Char) (rk : Int → Int) (g : Graph)
    (lines : List (List Char)) :
    readKeysText.goS cm delim rk g lines
      = c18t_finish (g.addMany ((c18t_cleanS cm delim lines).1.map (c18t_rankS rk)))
          (c18t_cleanS cm delim lines).2 := by
  induction lines generalizing g with
  | nil => simp [readKeysText.goS, c18t_cleanS, Graph.addMany, c18t_finish]
  | cons l rest ih =>
    unfold readKeysText.goS c18t_cleanS
    cases h : snapRow cm delim l with
    | skip => simp only []; exact ih g
    | bad => simp [Graph.addMany, c18t_finish]
    | row u v t e =>
      simp only [List.map_cons, c18t_rankS, Graph.addMany]
      rcases h2 : g.addInteraction u v (some (rk t)) (e.map rk) with ⟨g', _ | err⟩
      · simp only []; exact ih g'
      · simp [c18t_finish]

/-- the rank function `keys=True` applies to every timestamp -/
def c18t_rk (keys : List (Int × Nat)) (t : Int) : Int := ((rankOf keys t).getD 0 : Nat)

/-- `read_snapshots(keys=True)`, no unconvertible row: the graph of the same rows with every timestamp
    replaced by its rank among the distinct timestamps of the rows -/
theorem C18_keys_snapshots (directed : Bool) (cm : Char) (delim : Option Char) (lines : List (List Char))
    (hclean : ∀ l ∈ lines, snapRow cm delim l ≠ .bad) :
    readKeysText false directed cm delim lines
      = (let rows := (c18t_cleanS cm delim lines).1
         let keys := compactTimeslot (snapshotTimestamps rows)
         let rk (t : Int) : Int := ((rankOf keys t).getD 0 : Nat)
         parseSnapshots directed (rows.map (fun (u, v, t, e) => (u, v, rk t, e.map rk)))) := by
  have hb : (c18t_cleanS cm delim lines).2 = false := by
    cases hf : (c18t_cleanS cm delim lines).2 with
    | false => rfl
    | true =>
      obtain ⟨l, hl, hbad⟩ := (c18t_cleanS_flag cm delim lines).mp hf
      exact absurd hbad (hclean l hl)
  unfold readKeysText
  rw [c18t_readIdsS cm delim lines hclean]
  simp only [Bool.false_eq_true, if_false]
  rw [c18t_keysGoS, hb]
  simp only [c18t_finish, parseSnapshots]
  have hmap : ∀ (rk : Int → Int) (rows : List (Node × Node × Int × Option Int)),
      rows.map (c18t_rankS rk) = rows.map (fun (u, v, t, e) => (u, v, rk t, e.map rk)) := by
    intro rk rows; rfl
  rw [hmap]
  simp

/-- the timestamps are those in the list given to `compact_timeslot`: no duplicates, so C18.lean applies -/
theorem c18t_eraseDups_nodup : ∀ (l : List Int), l.eraseDups.Nodup
  | [] => by simp
  | a :: as => by
    rw [List.eraseDups_cons]
    have : (as.filter fun b => !b == a).length < (a :: as).length :=
      Nat.lt_succ_of_le (List.length_filter_le _ _)
    rw [List.nodup_cons]
    refine ⟨?_, c18t_eraseDups_nodup _⟩
    rw [List.mem_eraseDups, List.mem_filter]
    simp
termination_by l => l.length

theorem C18_keys_snapshots_nodup (rows : List (Node × Node × Int × Option Int)) :
    (snapshotTimestamps rows).Nodup := by
  unfold snapshotTimestamps
  exact c18t_eraseDups_nodup _

/-- the general form: whenever `read_ids` succeeds with `keys`, the graph read is the graph of the
    ranked clean rows, with `TypeError` when an unconvertible row is reached first -/
theorem C18_keys_snapshots_noise (directed : Bool) (cm : Char) (delim : Option Char)
    (lines : List (List Char)) (keys : List (Int × Nat))
    (hk : readIdsText false cm delim lines = .ok keys) :
    readKeysText false directed cm delim lines
      = c18t_finish
          ((Graph.empty directed true).addMany
            ((c18t_cleanS cm delim lines).1.map (c18t_rankS (c18t_rk keys))))
          (c18t_cleanS cm delim lines).2 := by
  unfold readKeysText
  rw [hk]
  simp only [Bool.false_eq_true, if_false]
  rw [c18t_keysGoS]
  rfl

/-! #### interactions, keys=True -/

def c18t_idFieldsI (cm : Char) (delim : Option Char) (l : List Char) : Option (List Int) :=
  let s := c18t_split delim (strip (cutComment cm l))
  (if s.length == 4 then (s.drop 3).take 1 else []).mapM intOf

theorem c18t_idsGoI_cons (cm : Char) (delim : Option Char) (acc : List Int) (l : List Char)
    (rest : List (List Char)) :
    readIdsText.go true cm delim acc (l :: rest) =
      (match c18t_idFieldsI cm delim l with
        | none => .error .type
        | some ts => readIdsText.go true cm delim (acc ++ ts) rest) := by
  rfl

def c18t_tsOfRowI : RowI → List Int
  | .row r => [r.t]
  | _ => []

theorem c18t_idFieldsI_eq (cm : Char) (delim : Option Char) (l : List Char)
    (h : intRow cm delim l ≠ .bad) :
    c18t_idFieldsI cm delim l = some (c18t_tsOfRowI (intRow cm delim l)) := by
  unfold intRow at *
  rw [c18t_fieldsOf_eq] at *
  unfold c18t_idFieldsI
  by_cases hemp : (cutComment cm l).isEmpty = true
  · have : cutComment cm l = [] := by simpa using hemp
    cases delim <;> simp [this, c18t_split, c18t_strip_nil, splitWs, splitWs.go, splitOnChar, c18t_tsOfRowI]
  · simp only [hemp] at h ⊢
    generalize c18t_split delim (strip (cutComment cm l)) = s at h ⊢
    match s with
    | [] => simp [c18t_tsOfRowI]
    | [_] => simp [c18t_tsOfRowI]
    | [_, _] => simp [c18t_tsOfRowI]
    | [_, _, _] => simp [c18t_tsOfRowI]
    | [u, v, op, t] =>
      cases hu : nodeOf u <;> cases hv : nodeOf v <;> cases ht : intOf t <;>
        simp [hu, hv, ht, c18t_tsOfRowI] at h ⊢
    | _ :: _ :: _ :: _ :: _ :: _ => simp [c18t_tsOfRowI]

theorem c18t_cleanI_cons (cm : Char) (delim : Option Char) (l : List Char) (rest : List (List Char)) :
    c18t_cleanI cm delim (l :: rest) =
      (match intRow cm delim l with
        | .skip => c18t_cleanI cm delim rest
        | .bad => ([], true)
        | .row r => (r :: (c18t_cleanI cm delim rest).1, (c18t_cleanI cm delim rest).2)) := rfl

theorem c18t_idsGoI (cm : Char) (delim : Option Char) (acc : List Int) (lines : List (List Char))
    (hclean : ∀ l ∈ lines, intRow cm delim l ≠ .bad) :
    readIdsText.go true cm delim acc lines
      = .ok (acc ++ (c18t_cleanI cm delim lines).1.map (·.t)) := by
  induction lines generalizing acc with
  | nil => simp [readIdsText.go, c18t_cleanI]
  | cons l rest ih =>
    have hl := hclean l (by simp)
    have hrest : ∀ x ∈ rest, intRow cm delim x ≠ .bad := fun x hx => hclean x (by simp [hx])
    rw [c18t_idsGoI_cons, c18t_idFieldsI_eq cm delim l hl]
    simp only []
    rw [ih _ hrest, c18t_cleanI_cons]
    cases hr : intRow cm delim l with
    | skip => simp [c18t_tsOfRowI]
    | bad => exact absurd hr hl
    | row r => simp [c18t_tsOfRowI]

theorem c18t_readIdsI (cm : Char) (delim : Option Char) (lines : List (List Char))
    (hclean : ∀ l ∈ lines, intRow cm delim l ≠ .bad) :
    readIdsText true cm delim lines
      = .ok (compactTimeslot (interactionTimestamps (c18t_cleanI cm delim lines).1)) := by
  unfold readIdsText
  rw [c18t_idsGoI cm delim [] lines hclean]
  simp [interactionTimestamps]

theorem c18t_keysGoI (cm : Char) (delim : Option Char) (rk : Int → Int) (g : Graph)
    (lines : List (List Char)) :
    readKeysText.goI cm delim rk g lines
      = c18t_finish (g.replayRows ((c18t_cleanI cm delim lines).1.map (fun r => { r with t := rk r.t })))
          (c18t_cleanI cm delim lines).2 := by
  induction lines generalizing g with
  | nil => simp [readKeysText.goI, c18t_cleanI, Graph.replayRows, c18t_finish]
  | cons l rest ih =>
    unfold readKeysText.goI
    rw [c18t_cleanI_cons]
    cases h : intRow cm delim l with
    | skip => simp only []; exact ih g
    | bad => simp [Graph.replayRows, c18t_finish]
    | row r =>
      simp only [List.map_cons, Graph.replayRows]
      rcases h2 : g.replayRow { r with t := rk r.t } with ⟨g', _ | err⟩
      · simp only []; exact ih g'
      · simp [c18t_finish]

/-- `read_interactions(keys=True)`, no unconvertible row: the graph of the same rows with every
    timestamp replaced by its rank -/
theorem C18_keys_interactions (directed : Bool) (cm : Char) (delim : Option Char) (lines : List (List Char))
    (hclean : ∀ l ∈ lines, intRow cm delim l ≠ .bad) :
    readKeysText true directed cm delim lines
      = (let rows := (c18t_cleanI cm delim lines).1
         let keys := compactTimeslot (interactionTimestamps rows)
         let rk (t : Int) : Int := ((rankOf keys t).getD 0 : Nat)
         parseInteractions directed (rows.map (fun r => { r with t := rk r.t }))) := by
  have hb : (c18t_cleanI cm delim lines).2 = false := by
    cases hf : (c18t_cleanI cm delim lines).2 with
    | false => rfl
    | true =>
      obtain ⟨l, hl, hbad⟩ := (c18t_cleanI_flag cm delim lines).mp hf
      exact absurd hbad (hclean l hl)
  unfold readKeysText
  rw [c18t_readIdsI cm delim lines hclean]
  simp only [if_true]
  rw [c18t_keysGoI, hb]
  simp [c18t_finish, parseInteractions]

/-! ### 4'. the delimiter is honoured, end to end (line -> fields) -/

theorem c18t_stripL_head (l : List Char) (h : ∀ c, l.head? = some c → isWs c = false) : stripL l = l := by
  cases l with
  | nil => rfl
  | cons c cs => simp [stripL, h c rfl]

/-- `strip` leaves a line without leading / trailing whitespace alone -/
theorem c18t_strip_ends (l : List Char) (h1 : ∀ c, l.head? = some c → isWs c = false)
    (h2 : ∀ c, l.getLast? = some c → isWs c = false) : strip l = l := by
  unfold strip
  rw [c18t_stripL_head l h1, c18t_stripL_head l.reverse (by simpa using h2)]
  simp

theorem c18t_join_ne_nil (d : Char) (fs : List (List Char)) (hfs : fs ≠ []) (hne : ∀ f ∈ fs, f ≠ []) :
    c18t_join d fs ≠ [] := by
  match fs, hfs with
  | [f], _ => simpa [c18t_join] using hne
  | f :: g :: gs, _ => simp [c18t_join]

theorem c18t_join_head (d : Char) (fs : List (List Char)) (hne : ∀ f ∈ fs, f ≠ []) (c : Char)
    (h : (c18t_join d fs).head? = some c) : ∃ f ∈ fs, c ∈ f := by
  match fs with
  | [] => simp [c18t_join] at h
  | [f] => exact ⟨f, by simp, List.mem_of_head? (by simpa [c18t_join] using h)⟩
  | f :: g :: gs =>
    have hf : f ≠ [] := hne f (by simp)
    cases f with
    | nil => exact absurd rfl hf
    | cons a as =>
      simp [c18t_join] at h
      exact ⟨a :: as, by simp, by simp [h]⟩

theorem c18t_join_last (d : Char) (fs : List (List Char)) (hne : ∀ f ∈ fs, f ≠ []) (c : Char)
    (h : (c18t_join d fs).getLast? = some c) : ∃ f ∈ fs, c ∈ f := by
  induction fs with
  | nil => simp [c18t_join] at h
  | cons f rest ih =>
    cases rest with
    | nil => exact ⟨f, by simp, List.mem_of_getLast? (by simpa [c18t_join] using h)⟩
    | cons g gs =>
      have hne' : ∀ x ∈ g :: gs, x ≠ [] := fun x hx => hne x (by simp [hx])
      have hj := c18t_join_ne_nil d (g :: gs) (by simp) hne'
      obtain ⟨b, bs, hb⟩ := List.exists_cons_of_ne_nil hj
      simp only [c18t_join] at h
      rw [hb, List.getLast?_append, List.getLast?_cons_cons, List.getLast?_cons] at h
      have h' : (c18t_join d (g :: gs)).getLast? = some c := by
        rw [hb, List.getLast?_cons]; simpa using h
      obtain ⟨x, hx, hc⟩ := ih hne' h'
      exact ⟨x, by simp [hx], hc⟩

/-- a line made of fields joined by the explicit delimiter `d` is read back as exactly those fields
    (fields contain neither `d` nor the comment marker; the line does not start / end with whitespace) -/
theorem C18_delimiter_fields (cm d : Char) (fs : List (List Char)) (hfs : fs ≠ [])
    (hline : c18t_join d fs ≠ [])
    (hd : ∀ f ∈ fs, d ∉ f) (hcm : cm ∉ c18t_join d fs)
    (h1 : ∀ c, (c18t_join d fs).head? = some c → isWs c = false)
    (h2 : ∀ c, (c18t_join d fs).getLast? = some c → isWs c = false) :
    fieldsOf cm (some d) (c18t_join d fs) = some fs := by
  rw [c18t_fieldsOf_eq, c18t_cutComment_notin cm _ hcm, c18t_strip_ends _ h1 h2]
  have : (c18t_join d fs).isEmpty = false := by simpa using hline
  simp [this, c18t_split, c18t_splitOnChar_join d fs hfs hd]

theorem c18t_mem_join (d : Char) (fs : List (List Char)) (c : Char) (h : c ∈ c18t_join d fs) :
    c = d ∨ ∃ f ∈ fs, c ∈ f := by
  induction fs with
  | nil => simp [c18t_join] at h
  | cons f rest ih =>
    cases rest with
    | nil => exact Or.inr ⟨f, by simp, by simpa [c18t_join] using h⟩
    | cons g gs =>
      simp only [c18t_join, List.mem_append, List.mem_cons] at h
      rcases h with h | h | h
      · exact Or.inr ⟨f, by simp, h⟩
      · exact Or.inl h
      · rcases ih h with h | ⟨x, hx, hc⟩
        · exact Or.inl h
        · exact Or.inr ⟨x, by simp [hx], hc⟩

/-- a line made of non-empty whitespace-free fields joined by single spaces is read back as exactly
    those fields with the default delimiter -/
theorem C18_whitespace_fields (cm : Char) (fs : List (List Char)) (hfs : fs ≠ [])
    (hne : ∀ f ∈ fs, f ≠ []) (hws : ∀ f ∈ fs, ∀ c ∈ f, isWs c = false)
    (hcm : ∀ f ∈ fs, cm ∉ f) (hcm' : cm ≠ ' ') :
    fieldsOf cm none (c18t_join ' ' fs) = some fs := by
  have hnot : cm ∉ c18t_join ' ' fs := by
    intro hm
    rcases c18t_mem_join ' ' fs cm hm with h | ⟨f, hf, hc⟩
    · exact hcm' h
    · exact hcm f hf hc
  have h1 : ∀ c, (c18t_join ' ' fs).head? = some c → isWs c = false := by
    intro c hc
    obtain ⟨f, hf, hcf⟩ := c18t_join_head ' ' fs hne c hc
    exact hws f hf c hcf
  have h2 : ∀ c, (c18t_join ' ' fs).getLast? = some c → isWs c = false := by
    intro c hc
    obtain ⟨f, hf, hcf⟩ := c18t_join_last ' ' fs hne c hc
    exact hws f hf c hcf
  rw [c18t_fieldsOf_eq, c18t_cutComment_notin cm _ hnot, c18t_strip_ends _ h1 h2]
  have : (c18t_join ' ' fs).isEmpty = false := by
    simpa using c18t_join_ne_nil ' ' fs hfs hne
  simp [this, c18t_split, c18t_splitWs_join fs hne hws]


/-! ### 6. examples -/

deriving instance DecidableEq for RowS

example : snapRow '#' none "1 2 3 # c\n".toList = .row 1 2 3 none := by decide
example : snapRow '#' (some ',') " 4,5,6,9,1 ".toList = .row 4 5 6 (some 9) := by decide

end Dynetx
