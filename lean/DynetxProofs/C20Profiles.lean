import DynetxProofs.C20
/-
  C20 for label PROFILES (`labels` with several attributes, `profile_size ≥ 1`): "for each alpha and label profile,
  a score in [-1,1] for exactly the nodes present at start".  The similarity of a profile is a product of per-label
  terms, each in [-1,1]; the rest of the argument is the one of `C20.lean`.
-/
namespace Dynetx

/-! ### `itertools.combinations` -/

/-- the combinations of size `k` are exactly the sublists of length `k` -/
theorem c20p_mem_combinations {α : Type} (k : Nat) (l c : List α) :
    c ∈ combinations k l ↔ c.Sublist l ∧ c.length = k := by
  induction l generalizing k c with
  | nil =>
    cases k with
    | zero => simp [combinations]
    | succ k =>
      simp only [combinations, List.not_mem_nil, List.sublist_nil, false_iff, not_and]
      rintro rfl; simp
  | cons x xs ih =>
    cases k with
    | zero =>
      simp only [combinations, List.mem_singleton, List.length_eq_zero_iff]
      constructor
      · rintro rfl; exact ⟨List.nil_sublist _, rfl⟩
      · exact fun h => h.2
    | succ k =>
      simp only [combinations, List.mem_append, List.mem_map]
      constructor
      · rintro (⟨c', hc', rfl⟩ | hc)
        · obtain ⟨hs, hl⟩ := (ih k c').1 hc'
          exact ⟨hs.cons_cons x, by simp [hl]⟩
        · obtain ⟨hs, hl⟩ := (ih (k + 1) c).1 hc
          exact ⟨hs.cons x, hl⟩
      · rintro ⟨hs, hl⟩
        cases hs with
        | cons _ hs' => exact Or.inr ((ih (k + 1) c).2 ⟨hs', hl⟩)
        | cons_cons _ hs' =>
          rename_i c'
          refine Or.inl ⟨c', (ih k c').2 ⟨hs', ?_⟩, rfl⟩
          simpa using hl

/-- `profiles`: every non-empty selection of at most `profile_size` labels, in the order of `labels` -/
theorem C20P_profiles (labels : List Nat) (profileSize : Nat) (pr : List Nat) :
    pr ∈ profilesOf labels profileSize ↔ pr.Sublist labels ∧ 1 ≤ pr.length ∧ pr.length ≤ profileSize := by
  unfold profilesOf
  simp only [List.mem_flatMap, List.mem_range, c20p_mem_combinations]
  constructor
  · rintro ⟨i, hi, hs, hl⟩; exact ⟨hs, by omega, by omega⟩
  · rintro ⟨hs, h1, h2⟩; exact ⟨pr.length - 1, by omega, hs, by omega⟩

/-! ### the bound -/

theorem labelFrequencyL_abs_le (g : Graph) (lab : Node → Nat) (u : Node) (nodes : List Node) (td : List (Node × Nat)) :
    |labelFrequencyL g lab u nodes td| ≤ 1 := by
  unfold labelFrequencyL
  apply avg_abs_le
  intro v _
  exact term_abs_le _ _ _ (List.length_filter_le _ _)

theorem c20p_foldl_mul_abs_le {α : Type} (l : List α) (F : α → Rat) (hF : ∀ x ∈ l, |F x| ≤ 1) :
    ∀ s : Rat, |s| ≤ 1 → |l.foldl (fun s x => s * F x) s| ≤ 1 := by
  induction l with
  | nil => intro s hs; simpa using hs
  | cons x xs ih =>
    intro s hs
    rw [List.foldl_cons]
    apply ih (fun y hy => hF y (List.mem_cons_of_mem _ hy))
    rw [abs_mul]
    have h1 := hF x List.mem_cons_self
    calc |s| * |F x| ≤ 1 * 1 := mul_le_mul hs h1 (abs_nonneg _) (by norm_num)
      _ = 1 := by norm_num

theorem profileFrequency_abs_le (g : Graph) (tab : LabelTable) (profile : List Nat) (u : Node) (nodes : List Node)
    (td : List (Node × Nat)) : |profileFrequency g tab profile u nodes td| ≤ 1 := by
  unfold profileFrequency
  exact c20p_foldl_mul_abs_le profile _ (fun l _ => labelFrequencyL_abs_le g (tab l) u nodes td) 1 (by simp)

/-- a profile of one label is that label's term; the single label of `Conformity.lean` is the table `g.label` -/
theorem profileFrequency_single (g : Graph) (tab : LabelTable) (l : Nat) (u : Node) (nodes : List Node)
    (td : List (Node × Nat)) : profileFrequency g tab [l] u nodes td = labelFrequencyL g (tab l) u nodes td := by
  simp [profileFrequency]

theorem labelFrequencyL_label (g : Graph) (u : Node) (nodes : List Node) (td : List (Node × Nat)) :
    labelFrequencyL g g.label u nodes td = labelFrequency g u nodes td := rfl

def rawOfP (g : Graph) (tab : LabelTable) (pr : List Nat) (td : List (Node × Nat)) (alpha : Nat) (u : Node) : Rat :=
  ((ranksOf td).map (fun (d : Nat) =>
    if d == 0 then (0 : Rat)
    else profileFrequency g tab pr u (nodesAtRank td d) td / (((d : Nat) : Rat) ^ alpha))).foldl (· + ·) 0

def scoreOfP (g : Graph) (tab : LabelTable) (pr : List Nat) (td : List (Node × Nat)) (alpha : Nat) (u : Node) : Rat :=
  match (ranksOf td).getLast? with
  | none => rawOfP g tab pr td alpha u
  | some mx => rawOfP g tab pr td alpha u / normConst mx alpha

theorem nodeScoreP_eq (g : Graph) (tab : LabelTable) (pr : List Nat) (sp : List ((Node × Node) × List TPath))
    (ptype alpha : Nat) (u : Node) :
    nodeScoreP g tab pr sp ptype alpha u = scoreOfP g tab pr (tDistances sp ptype u) alpha u := rfl

theorem rawOfP_eq (g : Graph) (tab : LabelTable) (pr : List Nat) (td : List (Node × Nat)) (alpha : Nat) (u : Node) :
    rawOfP g tab pr td alpha u = ((ranksOf td).map (fun d =>
        profileFrequency g tab pr u (nodesAtRank td d) td / ((d : Nat) : Rat) ^ alpha)).sum := by
  unfold rawOfP
  rw [foldl_add_zero]
  congr 1
  apply List.map_congr_left
  intro d hd
  have : d ≠ 0 := by have := ((ranksOf_facts td).2.2 d).1 hd; omega
  simp [this]

theorem scoreOfP_bound (g : Graph) (tab : LabelTable) (pr : List Nat) (td : List (Node × Nat)) (alpha : Nat) (u : Node) :
    -1 ≤ scoreOfP g tab pr td alpha u ∧ scoreOfP g tab pr td alpha u ≤ 1 := by
  obtain ⟨hnd, hpw, hmem⟩ := ranksOf_facts td
  have hpos : ∀ d ∈ ranksOf td, 1 ≤ d := fun d hd => ((hmem d).1 hd).1
  unfold scoreOfP
  cases hl : (ranksOf td).getLast? with
  | none =>
    have : ranksOf td = [] := List.getLast?_eq_none_iff.1 hl
    simp only [rawOfP_eq, this]; simp
  | some mx =>
    obtain ⟨hmx, hle⟩ := le_getLast_of_pairwise hpw hl
    simp only [rawOfP_eq]
    exact quot_bound _ (normConst mx alpha) (normConst_pos mx alpha (hpos mx hmx))
      (core_abs_sum_le (ranksOf td) mx alpha (fun d => profileFrequency g tab pr u (nodesAtRank td d) td)
        hnd (fun d hd => ⟨hpos d hd, hle d hd⟩) (fun d _ => profileFrequency_abs_le g tab pr u _ td))

/-- **C20 (bound, profiles).** The score of every node, exponent and label profile lies in [-1, 1]. -/
theorem C20P_bound (g : Graph) (tab : LabelTable) (pr : List Nat) (sp : List ((Node × Node) × List TPath))
    (ptype alpha : Nat) (u : Node) :
    -1 ≤ nodeScoreP g tab pr sp ptype alpha u ∧ nodeScoreP g tab pr sp ptype alpha u ≤ 1 := by
  rw [nodeScoreP_eq]; exact scoreOfP_bound g tab pr _ alpha u

/-- the documented argument errors -/
theorem C20P_errors (dg : Graph) (tab : LabelTable) (start delta : Int) (alphas labels : List Nat)
    (profileSize ptype : Nat) (h : profileSize > labels.length ∨ alphas = [] ∨ labels = []) :
    dg.deltaConformityP tab start delta alphas labels profileSize ptype = .error .value := by
  unfold Graph.deltaConformityP
  rcases h with h | h | h
  · simp [h]
  · subst h; split <;> simp
  · subst h; split <;> simp

/-- **C20 (shape and bound of the result, profiles).** A successful non-`None` result has one entry per exponent, in
    each of them one entry per profile (`profilesOf`), in each of those one score per node present at `start` in the
    slice, and every score lies in [-1, 1]. -/
theorem C20P_result (dg : Graph) (tab : LabelTable) (start delta : Int) (alphas labels : List Nat)
    (profileSize ptype : Nat) (l : List (Nat × List (List Nat × List (Node × Rat))))
    (h : dg.deltaConformityP tab start delta alphas labels profileSize ptype = .ok (some l)) :
    l.map (·.1) = alphas ∧
    (∀ e ∈ l, e.2.map (·.1) = profilesOf labels profileSize) ∧
    (∃ g, dg.timeSlice start (some (start + delta)) = .ok g ∧
      ∀ e ∈ l, ∀ pe ∈ e.2, pe.2.map (·.1) = g.nodesAt (some start)) ∧
    (∀ e ∈ l, ∀ pe ∈ e.2, ∀ nv ∈ pe.2, -1 ≤ nv.2 ∧ nv.2 ≤ 1) := by
  unfold Graph.deltaConformityP at h
  split at h
  · cases h
  · split at h
    · cases h
    · cases hs : dg.timeSlice start (some (start + delta)) with
      | error e => rw [hs] at h; simp at h
      | ok g =>
        rw [hs] at h
        simp only at h
        cases hmin : minList g.ids with
        | none => rw [hmin] at h; simp at h
        | some lo =>
          cases hmax : maxList g.ids with
          | none => rw [hmin, hmax] at h; simp at h
          | some hi =>
            rw [hmin, hmax] at h
            simp only at h
            split at h
            · simp at h
            · simp only [Except.ok.injEq, Option.some.injEq] at h
              subst h
              refine ⟨by simp [List.map_map, Function.comp_def], ?_, ⟨g, rfl, ?_⟩, ?_⟩
              · intro e he
                obtain ⟨a, _, rfl⟩ := List.mem_map.1 he
                simp [List.map_map, Function.comp_def]
              · intro e he pe hpe
                obtain ⟨a, _, rfl⟩ := List.mem_map.1 he
                obtain ⟨pr, _, rfl⟩ := List.mem_map.1 hpe
                simp [List.map_map, Function.comp_def]
              · intro e he pe hpe nv hnv
                obtain ⟨a, _, rfl⟩ := List.mem_map.1 he
                obtain ⟨pr, _, rfl⟩ := List.mem_map.1 hpe
                obtain ⟨u, _, rfl⟩ := List.mem_map.1 hnv
                exact C20P_bound g tab pr _ ptype a u

end Dynetx

namespace Dynetx

/-! ### the single-label model of `Conformity.lean` is the one-profile instance -/

theorem C20P_nodeScore_single (g : Graph) (tab : LabelTable) (l : Nat) (h : tab l = g.label)
    (sp : List ((Node × Node) × List TPath)) (ptype alpha : Nat) (u : Node) :
    nodeScoreP g tab [l] sp ptype alpha u = nodeScore g sp ptype alpha u := by
  unfold nodeScoreP nodeScore
  simp only [profileFrequency_single, h, labelFrequencyL_label]
  rfl

theorem c20p_profilesOf_single (l : Nat) : profilesOf [l] 1 = [[l]] := by
  simp [profilesOf, combinations]

/-- with one label whose table is the node attribute of the slice, `deltaConformityP` is `deltaConformity` with every
    score list filed under the single profile `[l]` -/
theorem C20P_single (dg : Graph) (tab : LabelTable) (l : Nat) (start delta : Int) (alphas : List Nat) (ptype : Nat)
    (halpha : alphas ≠ [])
    (htab : ∀ g, dg.timeSlice start (some (start + delta)) = .ok g → tab l = g.label) :
    dg.deltaConformityP tab start delta alphas [l] 1 ptype =
      (dg.deltaConformity start delta alphas ptype).map
        (fun r => r.map (fun res => res.map (fun ar => (ar.1, [([l], ar.2)])))) := by
  unfold Graph.deltaConformityP Graph.deltaConformity
  have h1 : ¬ (1 > [l].length) := by simp
  have h2 : ¬ ((alphas.length < 1 || [l].length < 1) = true) := by
    cases alphas with
    | nil => exact absurd rfl halpha
    | cons a rest => simp
  simp only [if_neg h1, if_neg h2]
  cases hs : dg.timeSlice start (some (start + delta)) with
  | error e => rfl
  | ok g =>
    have hl := htab g hs
    simp only [Except.map]
    cases minList g.ids with
    | none => rfl
    | some lo =>
      cases maxList g.ids with
      | none => rfl
      | some hi =>
        simp only
        cases g.allTimeRespectingPaths (some (max start lo)) (some (min hi (start + delta))) none with
        | error e => rfl
        | ok sp =>
          simp only [Except.map, Option.map_some, c20p_profilesOf_single, List.map_cons, List.map_nil, List.map_map]
          congr 2
          apply List.map_congr_left
          intro a _
          simp only [Function.comp, Prod.mk.injEq, true_and, List.cons.injEq, and_true]
          apply List.map_congr_left
          intro u _
          simp only [C20P_nodeScore_single g tab l hl]

end Dynetx
