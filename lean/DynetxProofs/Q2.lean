import DynetxProofs.Lemmas.HistoryMore
/-
  C02: the query layer — interaction lists (`interactions`, `out_interactions`, `in_interactions`),
  `size`, `density`, `degree_histogram`, `non_interactions`.
-/
namespace Dynetx

/-- the node-side invariant (proved for all histories elsewhere): the endpoints of every stored pair are
    nodes and `_node` has no duplicate key -/
structure q2_NodeInv (g : Graph) : Prop where
  endpoints : ∀ e ∈ g.edges, g.hasNodeFlat e.u = true ∧ g.hasNodeFlat e.v = true
  nodup : (g.nodes.map (·.1)).Nodup

/-! ### basic facts -/

theorem q2_hasNodeFlat_iff (g : Graph) (n : Node) : g.hasNodeFlat n = true ↔ n ∈ g.nodeList := by
  simp [Graph.hasNodeFlat, Graph.nodeList]

theorem q2_nodeList_nodup {g : Graph} (hn : q2_NodeInv g) : g.nodeList.Nodup := hn.nodup

theorem q2_mem_succs (g : Graph) (u v : Node) :
    v ∈ g.succs u ↔ ∃ e ∈ g.edges, sameKey g.directed e.u e.v u v = true := by
  unfold Graph.succs
  simp only [List.mem_filterMap]
  constructor
  · rintro ⟨e, he, hf⟩
    refine ⟨e, he, ?_⟩
    cases hd : g.directed <;> simp only [hd, sameKey] at hf ⊢ <;> grind
  · rintro ⟨e, he, hk⟩
    refine ⟨e, he, ?_⟩
    cases hd : g.directed <;> simp only [hd, sameKey] at hk ⊢ <;> grind

theorem q2_mem_preds (g : Graph) (u v : Node) :
    u ∈ g.preds v ↔ ∃ e ∈ g.edges, e.u = u ∧ e.v = v := by
  unfold Graph.preds
  simp only [List.mem_filterMap]
  constructor
  · rintro ⟨e, he, hf⟩; exact ⟨e, he, by grind⟩
  · rintro ⟨e, he, hk⟩; exact ⟨e, he, by grind⟩

theorem q2_preds_iff_succs {g : Graph} (hd : g.directed = true) (u v : Node) :
    u ∈ g.preds v ↔ v ∈ g.succs u := by
  rw [q2_mem_preds, q2_mem_succs, hd]
  simp only [sameKey_directed_iff]

theorem q2_mem_succs_iff_flat (g : Graph) (u v : Node) :
    v ∈ g.succs u ↔ g.hasInteraction u v none = true := by
  rw [q2_mem_succs, hasInteraction_flat_iff]

theorem q2_flat_of_has {g : Graph} {u v : Node} {t : Option Int} (hh : g.hasInteraction u v t = true) :
    g.hasInteraction u v none = true := by
  unfold Graph.hasInteraction at hh ⊢
  cases hf : g.findEdge u v with
  | none => simp [hf] at hh
  | some e => rfl

/-- on the row of `u` the `present` filter is exactly `has_interaction(u, v, t)` -/
theorem q2_succs_present_iff (g : Graph) (u v : Node) (t : Option Int) :
    (v ∈ g.succs u ∧ g.present u v t = true) ↔ g.hasInteraction u v t = true := by
  rw [q2_mem_succs_iff_flat]
  cases t with
  | none => simp [Graph.present]
  | some x =>
    simp only [Graph.present]
    exact ⟨fun hh => hh.2, fun hh => ⟨q2_flat_of_has hh, hh⟩⟩

theorem q2_mem_neighbors (g : Graph) (u v : Node) (t : Option Int) :
    v ∈ g.neighbors u t ↔ g.hasInteraction u v t = true := by
  unfold Graph.neighbors
  rw [List.mem_filter, q2_succs_present_iff]

theorem q2_mem_predecessors {g : Graph} (hd : g.directed = true) (u v : Node) (t : Option Int) :
    u ∈ g.predecessors v t ↔ g.hasInteraction u v t = true := by
  unfold Graph.predecessors
  rw [List.mem_filter, q2_preds_iff_succs hd, q2_succs_present_iff]

theorem q2_has_symm {g : Graph} (hd : g.directed = false) (a b : Node) (t : Option Int) :
    g.hasInteraction a b t = g.hasInteraction b a t := by
  unfold Graph.hasInteraction
  rw [findEdge_swap_undirected g hd a b]

/-- the source of a present interaction is a node -/
theorem q2_has_node_left {g : Graph} (hn : q2_NodeInv g) {u v : Node} {t : Option Int}
    (hh : g.hasInteraction u v t = true) : u ∈ g.nodeList := by
  obtain ⟨e, he, hk⟩ := (hasInteraction_flat_iff g u v).mp (q2_flat_of_has hh)
  have := hn.endpoints e he
  rw [q2_hasNodeFlat_iff, q2_hasNodeFlat_iff] at this
  cases hd : g.directed <;> simp only [hd, sameKey] at hk <;> grind

theorem q2_has_node_right {g : Graph} (hn : q2_NodeInv g) {u v : Node} {t : Option Int}
    (hh : g.hasInteraction u v t = true) : v ∈ g.nodeList := by
  obtain ⟨e, he, hk⟩ := (hasInteraction_flat_iff g u v).mp (q2_flat_of_has hh)
  have := hn.endpoints e he
  rw [q2_hasNodeFlat_iff, q2_hasNodeFlat_iff] at this
  cases hd : g.directed <;> simp only [hd, sameKey] at hk <;> grind

/-- adjacency rows have no repeated neighbour -/
theorem q2_succs_nodup {g : Graph} (h : WF g) (n : Node) : (g.succs n).Nodup := by
  unfold Graph.succs
  rw [List.Nodup, List.pairwise_filterMap]
  refine h.keys.imp ?_
  intro e f hk b hb b' hb' hbb
  cases hd : g.directed <;> simp only [hd, sameKey] at hk hb hb' <;> grind

theorem q2_preds_nodup {g : Graph} (h : WF g) (n : Node) : (g.preds n).Nodup := by
  unfold Graph.preds
  rw [List.Nodup, List.pairwise_filterMap]
  refine h.keys.imp ?_
  intro e f hk b hb b' hb' hbb
  cases hd : g.directed <;> simp only [hd, sameKey] at hk hb hb' <;> grind

theorem q2_neighbors_nodup {g : Graph} (h : WF g) (n : Node) (t : Option Int) : (g.neighbors n t).Nodup :=
  (q2_succs_nodup h n).filter _

theorem q2_predecessors_nodup {g : Graph} (h : WF g) (n : Node) (t : Option Int) :
    (g.predecessors n t).Nodup :=
  (q2_preds_nodup h n).filter _

theorem q2_nodup_flatMap_left {l : List Node} (hl : l.Nodup) (f : Node → List Node)
    (hf : ∀ n, (f n).Nodup) : (l.flatMap (fun n => (f n).map (fun m => (n, m)))).Nodup := by
  rw [List.Nodup, List.pairwise_flatMap]
  constructor
  · intro a _
    rw [List.pairwise_map]
    exact (hf a).imp (by intro x y hxy hc; exact hxy (by injection hc))
  · refine hl.imp ?_
    intro a b hab x hx y hy hxy
    obtain ⟨m, _, rfl⟩ := List.mem_map.mp hx
    obtain ⟨m', _, rfl⟩ := List.mem_map.mp hy
    exact hab (by injection hxy)

theorem q2_nodup_flatMap_right {l : List Node} (hl : l.Nodup) (f : Node → List Node)
    (hf : ∀ n, (f n).Nodup) : (l.flatMap (fun n => (f n).map (fun m => (m, n)))).Nodup := by
  rw [List.Nodup, List.pairwise_flatMap]
  constructor
  · intro a _
    rw [List.pairwise_map]
    exact (hf a).imp (by intro x y hxy hc; exact hxy (by injection hc))
  · refine hl.imp ?_
    intro a b hab x hx y hy hxy
    obtain ⟨m, _, rfl⟩ := List.mem_map.mp hx
    obtain ⟨m', _, rfl⟩ := List.mem_map.mp hy
    exact hab (by injection hxy)

theorem q2_nbunch_nodup {g : Graph} (hn : q2_NodeInv g) (nb : Option (List Node))
    (hl : ∀ l, nb = some l → l.Nodup) : (g.nbunch nb).Nodup := by
  cases nb with
  | none => exact hn.nodup
  | some l => exact (hl l rfl).filter _

theorem q2_mem_nbunch_some (g : Graph) (l : List Node) (n : Node) :
    n ∈ g.nbunch (some l) ↔ n ∈ l ∧ n ∈ g.nodeList := by
  simp only [Graph.nbunch, List.mem_filter, q2_hasNodeFlat_iff]

/-! ### 1. directed / out / in lists -/

theorem C02_outInteractions (g : Graph) (nb : Option (List Node)) (t : Option Int) (u v : Node) :
    (u, v) ∈ g.outInteractions nb t ↔ (u ∈ g.nbunch nb ∧ v ∈ g.succs u ∧ g.present u v t = true) := by
  simp [Graph.outInteractions, Graph.neighbors]

theorem C02_inInteractions (g : Graph) (nb : Option (List Node)) (t : Option Int) (u v : Node) :
    (u, v) ∈ g.inInteractions nb t ↔ (v ∈ g.nbunch nb ∧ u ∈ g.preds v ∧ g.present u v t = true) := by
  simp only [Graph.inInteractions, Graph.predecessors, List.mem_flatMap, List.mem_map, List.mem_filter,
    Prod.mk.injEq]
  constructor
  · rintro ⟨a, ha, b, hb, rfl, rfl⟩; exact ⟨ha, hb⟩
  · rintro ⟨ha, hb⟩; exact ⟨v, ha, u, hb, rfl, rfl⟩

/-- directed graph, no `nbunch`: the list is exactly the set of present interactions, oriented -/
theorem C02_outInteractions_directed {g : Graph} (hn : q2_NodeInv g) (t : Option Int) (u v : Node) :
    (u, v) ∈ g.outInteractions none t ↔ g.hasInteraction u v t = true := by
  rw [C02_outInteractions, q2_succs_present_iff]
  exact ⟨fun hh => hh.2, fun hh => ⟨q2_has_node_left hn hh, hh⟩⟩

theorem C02_outInteractions_nodup {g : Graph} (h : WF g) (hn : q2_NodeInv g) (t : Option Int) :
    (g.outInteractions none t).Nodup :=
  q2_nodup_flatMap_left hn.nodup (fun n => g.neighbors n t) (fun n => q2_neighbors_nodup h n t)

theorem C02_inInteractions_directed {g : Graph} (hn : q2_NodeInv g) (hd : g.directed = true)
    (t : Option Int) (u v : Node) :
    (u, v) ∈ g.inInteractions none t ↔ g.hasInteraction u v t = true := by
  rw [C02_inInteractions, q2_preds_iff_succs hd, q2_succs_present_iff]
  exact ⟨fun hh => hh.2, fun hh => ⟨q2_has_node_right hn hh, hh⟩⟩

theorem C02_inInteractions_nodup {g : Graph} (h : WF g) (hn : q2_NodeInv g) (t : Option Int) :
    (g.inInteractions none t).Nodup :=
  q2_nodup_flatMap_right hn.nodup (fun n => g.predecessors n t) (fun n => q2_predecessors_nodup h n t)

/-- `nbunch` given: members of `l` that are not nodes contribute nothing, so no node test is visible -/
theorem C02_outInteractions_nbunch {g : Graph} (hn : q2_NodeInv g) (l : List Node)
    (t : Option Int) (u v : Node) :
    (u, v) ∈ g.outInteractions (some l) t ↔ (u ∈ l ∧ g.hasInteraction u v t = true) := by
  rw [C02_outInteractions, q2_succs_present_iff, q2_mem_nbunch_some]
  exact ⟨fun hh => ⟨hh.1.1, hh.2⟩, fun hh => ⟨⟨hh.1, q2_has_node_left hn hh.2⟩, hh.2⟩⟩

theorem C02_outInteractions_nbunch_nodup {g : Graph} (h : WF g) (l : List Node) (hl : l.Nodup)
    (t : Option Int) : (g.outInteractions (some l) t).Nodup :=
  q2_nodup_flatMap_left (hl.filter _) (fun n => g.neighbors n t) (fun n => q2_neighbors_nodup h n t)

theorem C02_inInteractions_nbunch {g : Graph} (hn : q2_NodeInv g) (hd : g.directed = true) (l : List Node)
    (t : Option Int) (u v : Node) :
    (u, v) ∈ g.inInteractions (some l) t ↔ (v ∈ l ∧ g.hasInteraction u v t = true) := by
  rw [C02_inInteractions, q2_preds_iff_succs hd, q2_succs_present_iff, q2_mem_nbunch_some]
  exact ⟨fun hh => ⟨hh.1.1, hh.2⟩, fun hh => ⟨⟨hh.1, q2_has_node_right hn hh.2⟩, hh.2⟩⟩

theorem C02_inInteractions_nbunch_nodup {g : Graph} (h : WF g) (l : List Node) (hl : l.Nodup)
    (t : Option Int) : (g.inInteractions (some l) t).Nodup :=
  q2_nodup_flatMap_right (hl.filter _) (fun n => g.predecessors n t) (fun n => q2_predecessors_nodup h n t)

/-! ### 2. `interactions_iter` and its `seen` set -/

theorem q2_go_mem (g : Graph) (t : Option Int) (ns seen : List Node) (u v : Node)
    (hm : (u, v) ∈ g.interactionsGo t ns seen) :
    u ∈ ns ∧ g.hasInteraction u v t = true ∧ v ∉ seen := by
  induction ns generalizing seen with
  | nil => simp [Graph.interactionsGo] at hm
  | cons n rest ih =>
    unfold Graph.interactionsGo at hm
    rcases List.mem_append.mp hm with h1 | h2
    · obtain ⟨m, hm1, heq⟩ := List.mem_map.mp h1
      injection heq with h3 h4; subst h3; subst h4
      rw [List.mem_filter] at hm1
      obtain ⟨hs, hp⟩ := hm1
      simp only [Bool.and_eq_true, Bool.not_eq_true', List.contains_eq_mem, decide_eq_false_iff_not] at hp
      exact ⟨List.mem_cons_self, (q2_succs_present_iff g n m t).mp ⟨hs, hp.2⟩, hp.1⟩
    · obtain ⟨a, b, c⟩ := ih (n :: seen) h2
      exact ⟨List.mem_cons_of_mem _ a, b, fun hc => c (List.mem_cons_of_mem _ hc)⟩

theorem q2_go_row (g : Graph) (t : Option Int) (n : Node) (rest seen : List Node) (m : Node)
    (hh : g.hasInteraction n m t = true) (hs : m ∉ seen) :
    (n, m) ∈ g.interactionsGo t (n :: rest) seen := by
  unfold Graph.interactionsGo
  refine List.mem_append_left _ (List.mem_map.mpr ⟨m, ?_, rfl⟩)
  rw [List.mem_filter]
  obtain ⟨h1, h2⟩ := (q2_succs_present_iff g n m t).mpr hh
  refine ⟨h1, ?_⟩
  simp only [Bool.and_eq_true, Bool.not_eq_true', List.contains_eq_mem, decide_eq_false_iff_not]
  exact ⟨hs, h2⟩

theorem q2_go_complete {g : Graph} (hd : g.directed = false) (t : Option Int) (ns seen : List Node)
    (u v : Node) (hh : g.hasInteraction u v t = true) (hin : u ∈ ns ∨ v ∈ ns)
    (hu : u ∉ seen) (hv : v ∉ seen) :
    (u, v) ∈ g.interactionsGo t ns seen ∨ (v, u) ∈ g.interactionsGo t ns seen := by
  induction ns generalizing seen with
  | nil => simp at hin
  | cons n rest ih =>
    by_cases hnu : n = u
    · subst hnu; exact Or.inl (q2_go_row g t n rest seen v hh hv)
    · by_cases hnv : n = v
      · subst hnv
        exact Or.inr (q2_go_row g t n rest seen u (by rw [q2_has_symm hd]; exact hh) hu)
      · have hin' : u ∈ rest ∨ v ∈ rest := by
          rcases hin with h1 | h1
          · rcases List.mem_cons.mp h1 with h2 | h2
            · exact absurd h2.symm hnu
            · exact Or.inl h2
          · rcases List.mem_cons.mp h1 with h2 | h2
            · exact absurd h2.symm hnv
            · exact Or.inr h2
        have hu' : u ∉ n :: seen := by
          intro hc; rcases List.mem_cons.mp hc with h2 | h2
          · exact hnu h2.symm
          · exact hu h2
        have hv' : v ∉ n :: seen := by
          intro hc; rcases List.mem_cons.mp hc with h2 | h2
          · exact hnv h2.symm
          · exact hv h2
        rcases ih (n :: seen) hin' hu' hv' with h3 | h3
        · left; unfold Graph.interactionsGo; exact List.mem_append_right _ h3
        · right; unfold Graph.interactionsGo; exact List.mem_append_right _ h3

/-- no pair is yielded twice, in either orientation (both classes) -/
theorem q2_go_pairwise {g : Graph} (h : WF g) (t : Option Int) (ns seen : List Node) (hns : ns.Nodup) :
    (g.interactionsGo t ns seen).Pairwise (fun p q => ¬ (sameKey false p.1 p.2 q.1 q.2 = true)) := by
  induction ns generalizing seen with
  | nil => simp [Graph.interactionsGo]
  | cons n rest ih =>
    rw [List.nodup_cons] at hns
    unfold Graph.interactionsGo
    rw [List.pairwise_append]
    refine ⟨?_, ih (n :: seen) hns.2, ?_⟩
    · rw [List.pairwise_map]
      refine ((q2_succs_nodup h n).filter _).imp ?_
      intro a b hab hk
      simp only [sameKey] at hk
      grind
    · intro p hp q hq
      obtain ⟨m, _, rfl⟩ := List.mem_map.mp hp
      obtain ⟨a, b⟩ := q
      obtain ⟨ha, _, hb⟩ := q2_go_mem g t rest (n :: seen) a b hq
      have h1 : a ≠ n := fun hc => hns.1 (hc ▸ ha)
      have h2 : b ≠ n := fun hc => hb (hc ▸ List.mem_cons_self)
      simp only [sameKey]
      grind

theorem C02_interactions_mem (g : Graph) (t : Option Int) (u v : Node)
    (hm : (u, v) ∈ g.interactions none t) : g.hasInteraction u v t = true :=
  (q2_go_mem g t _ _ u v hm).2.1

theorem C02_interactions_complete {g : Graph} (hn : q2_NodeInv g) (hd : g.directed = false)
    (t : Option Int) (u v : Node) (hh : g.hasInteraction u v t = true) :
    (u, v) ∈ g.interactions none t ∨ (v, u) ∈ g.interactions none t :=
  q2_go_complete hd t _ [] u v hh (Or.inl (q2_has_node_left hn hh)) (by simp) (by simp)

/-- each present unordered pair is listed once: no duplicates, never both orientations -/
theorem C02_interactions_once {g : Graph} (h : WF g) (hn : q2_NodeInv g) (t : Option Int) :
    (g.interactions none t).Pairwise (fun p q => ¬ (sameKey false p.1 p.2 q.1 q.2 = true)) :=
  q2_go_pairwise h t _ [] hn.nodup

theorem q2_nodup_of_pairwise_key {l : List (Node × Node)}
    (hp : l.Pairwise (fun p q => ¬ (sameKey false p.1 p.2 q.1 q.2 = true))) : l.Nodup := by
  refine hp.imp ?_
  intro a b hab hc
  subst hc
  exact hab (sameKey_refl _ _ _)

theorem C02_interactions_nodup {g : Graph} (h : WF g) (hn : q2_NodeInv g) (t : Option Int) :
    (g.interactions none t).Nodup :=
  q2_nodup_of_pairwise_key (C02_interactions_once h hn t)

/-- iff form: a pair is present iff it is listed in one of the two orientations -/
theorem C02_interactions_iff {g : Graph} (hn : q2_NodeInv g) (hd : g.directed = false)
    (t : Option Int) (u v : Node) :
    g.hasInteraction u v t = true ↔ ((u, v) ∈ g.interactions none t ∨ (v, u) ∈ g.interactions none t) := by
  constructor
  · exact C02_interactions_complete hn hd t u v
  · rintro (h1 | h1)
    · exact C02_interactions_mem g t u v h1
    · rw [q2_has_symm hd]; exact C02_interactions_mem g t v u h1

/-- `nbunch` version, soundness: a yielded pair is present and starts in `l` -/
theorem C02_interactions_nbunch_mem (g : Graph) (l : List Node) (t : Option Int) (u v : Node)
    (hm : (u, v) ∈ g.interactions (some l) t) :
    g.hasInteraction u v t = true ∧ (u ∈ l ∨ v ∈ l) := by
  obtain ⟨h1, h2, _⟩ := q2_go_mem g t _ _ u v hm
  exact ⟨h2, Or.inl ((q2_mem_nbunch_some g l u).mp h1).1⟩

/-- `nbunch` version, completeness: a present pair with an endpoint in `l` is yielded in one orientation -/
theorem C02_interactions_nbunch_complete {g : Graph} (hn : q2_NodeInv g) (hd : g.directed = false)
    (l : List Node) (t : Option Int) (u v : Node) (hh : g.hasInteraction u v t = true)
    (hin : u ∈ l ∨ v ∈ l) :
    (u, v) ∈ g.interactions (some l) t ∨ (v, u) ∈ g.interactions (some l) t := by
  refine q2_go_complete hd t _ [] u v hh ?_ (by simp) (by simp)
  rcases hin with h1 | h1
  · exact Or.inl ((q2_mem_nbunch_some g l u).mpr ⟨h1, q2_has_node_left hn hh⟩)
  · exact Or.inr ((q2_mem_nbunch_some g l v).mpr ⟨h1, q2_has_node_right hn hh⟩)

theorem C02_interactions_nbunch_once {g : Graph} (h : WF g) (l : List Node) (hl : l.Nodup)
    (t : Option Int) :
    (g.interactions (some l) t).Pairwise (fun p q => ¬ (sameKey false p.1 p.2 q.1 q.2 = true)) :=
  q2_go_pairwise h t _ [] (hl.filter _)

/-! ### 3. size (handshake) -/

theorem q2_sum_map_add (l : List Node) (f k : Node → Nat) :
    (l.map (fun n => f n + k n)).sum = (l.map f).sum + (l.map k).sum := by
  induction l with
  | nil => rfl
  | cons a rest ih => simp only [List.map_cons, List.sum_cons, ih]; omega

theorem q2_degreeSum_eq (g : Graph) (t : Option Int) :
    g.degreeSum t = (g.nodeList.map (fun n => g.degree n t)).sum := by
  unfold Graph.degreeSum
  rw [List.sum_eq_foldl_nat]

theorem q2_length_out (g : Graph) (nb : Option (List Node)) (t : Option Int) :
    (g.outInteractions nb t).length = ((g.nbunch nb).map (fun n => g.outDegree n t)).sum := by
  simp [Graph.outInteractions, Graph.outDegree]

theorem q2_length_in (g : Graph) (nb : Option (List Node)) (t : Option Int) :
    (g.inInteractions nb t).length = ((g.nbunch nb).map (fun n => g.inDegree n t)).sum := by
  simp [Graph.inInteractions, Graph.inDegree]

/-- Σ in-degree = Σ out-degree on a directed graph -/
theorem q2_length_in_eq_out {g : Graph} (h : WF g) (hn : q2_NodeInv g) (hd : g.directed = true)
    (t : Option Int) : (g.inInteractions none t).length = (g.outInteractions none t).length := by
  apply List.Perm.length_eq
  rw [List.perm_ext_iff_of_nodup (C02_inInteractions_nodup h hn t) (C02_outInteractions_nodup h hn t)]
  rintro ⟨u, v⟩
  rw [C02_inInteractions_directed hn hd, C02_outInteractions_directed hn]

theorem C02_degreeSum_directed {g : Graph} (h : WF g) (hn : q2_NodeInv g) (hd : g.directed = true)
    (t : Option Int) : g.degreeSum t = 2 * (g.outInteractions none t).length := by
  have h1 : g.degreeSum t =
      (g.outInteractions none t).length + (g.inInteractions none t).length := by
    rw [q2_degreeSum_eq, q2_length_out, q2_length_in, ← q2_sum_map_add]
    simp only [Graph.degree, hd, if_true, Graph.nbunch]
  rw [h1, q2_length_in_eq_out h hn hd]; omega

theorem C02_size_directed {g : Graph} (h : WF g) (hn : q2_NodeInv g) (hd : g.directed = true)
    (t : Option Int) : g.size t = (g.outInteractions none t).length := by
  unfold Graph.size
  rw [C02_degreeSum_directed h hn hd]; omega

theorem q2_pairwise_both {α : Type} {R : α → α → Prop} {l : List α} (hp : l.Pairwise R) {a b : α}
    (ha : a ∈ l) (hb : b ∈ l) (hab : a ≠ b) : R a b ∨ R b a := by
  induction l with
  | nil => cases ha
  | cons x xs ih =>
    rw [List.pairwise_cons] at hp
    rcases List.mem_cons.mp ha with rfl | ha'
    · rcases List.mem_cons.mp hb with rfl | hb'
      · exact absurd rfl hab
      · exact Or.inl (hp.1 b hb')
    · rcases List.mem_cons.mp hb with rfl | hb'
      · exact Or.inr (hp.1 a ha')
      · exact ih hp.2 ha' hb'

/-- undirected, no loop present at `t`: the adjacency rows list every yielded pair in both orientations -/
theorem q2_out_perm_undirected {g : Graph} (h : WF g) (hn : q2_NodeInv g) (hd : g.directed = false)
    (t : Option Int) (hloop : ∀ n, g.hasInteraction n n t = false) :
    (g.outInteractions none t).Perm
      (g.interactions none t ++ (g.interactions none t).map (fun p => (p.2, p.1))) := by
  have hI := C02_interactions_once h hn t
  have hswap : ∀ u v, (u, v) ∈ (g.interactions none t).map (fun p => (p.2, p.1)) ↔
      (v, u) ∈ g.interactions none t := by
    intro u v
    rw [List.mem_map]
    constructor
    · rintro ⟨⟨a, b⟩, hab, heq⟩
      injection heq with h1 h2; subst h1; subst h2; exact hab
    · intro hvu; exact ⟨(v, u), hvu, rfl⟩
  rw [List.perm_ext_iff_of_nodup (C02_outInteractions_nodup h hn t)]
  · rintro ⟨u, v⟩
    rw [C02_outInteractions_directed hn, List.mem_append, hswap]
    exact C02_interactions_iff hn hd t u v
  · rw [List.nodup_append]
    refine ⟨q2_nodup_of_pairwise_key hI, ?_, ?_⟩
    · rw [List.Nodup, List.pairwise_map]
      refine (q2_nodup_of_pairwise_key hI).imp ?_
      intro a b hab hc
      apply hab
      injection hc with h1 h2
      exact Prod.ext h2 h1
    · rintro ⟨u, v⟩ h1 ⟨u', v'⟩ h2 heq
      injection heq with e1 e2; subst e1; subst e2
      rw [hswap] at h2
      by_cases huv : u = v
      · subst huv
        have := C02_interactions_mem g t u u h1
        rw [hloop] at this; cases this
      · have hne : (u, v) ≠ (v, u) := by
          intro hc; injection hc with e1 _; exact huv e1
        rcases q2_pairwise_both hI h1 h2 hne with h3 | h3
        · exact h3 (by simp [sameKey])
        · exact h3 (by simp [sameKey])

theorem C02_degreeSum_undirected {g : Graph} (h : WF g) (hn : q2_NodeInv g) (hd : g.directed = false)
    (t : Option Int) (hloop : ∀ n, g.hasInteraction n n t = false) :
    g.degreeSum t = 2 * (g.interactions none t).length := by
  have h1 : g.degreeSum t = (g.outInteractions none t).length := by
    rw [q2_degreeSum_eq, q2_length_out]
    simp [Graph.degree, hd, Graph.nbunch]
  rw [h1, (q2_out_perm_undirected h hn hd t hloop).length_eq, List.length_append, List.length_map]
  omega

theorem C02_size_undirected {g : Graph} (h : WF g) (hn : q2_NodeInv g) (hd : g.directed = false)
    (t : Option Int) (hloop : ∀ n, g.hasInteraction n n t = false) :
    g.size t = (g.interactions none t).length := by
  unfold Graph.size
  rw [C02_degreeSum_undirected h hn hd t hloop]; omega

theorem q2_mem_swap (l : List (Node × Node)) (u v : Node) :
    (u, v) ∈ l.map (fun p => (p.2, p.1)) ↔ (v, u) ∈ l := by
  rw [List.mem_map]
  constructor
  · rintro ⟨⟨a, b⟩, hab, heq⟩
    injection heq with h1 h2; subst h1; subst h2; exact hab
  · intro hvu; exact ⟨(v, u), hvu, rfl⟩

theorem q2_swap_nodup {l : List (Node × Node)} (hl : l.Nodup) : (l.map (fun p => (p.2, p.1))).Nodup := by
  rw [List.Nodup, List.pairwise_map]
  refine hl.imp ?_
  intro a b hab hc
  apply hab
  injection hc with h1 h2
  exact Prod.ext h2 h1

/-- the general undirected handshake: a loop contributes 1 to its node's degree, so
    Σ degree + (number of loops present at `t`) = 2 · (number of listed pairs) -/
theorem C02_degreeSum_undirected_loops {g : Graph} (h : WF g) (hn : q2_NodeInv g)
    (hd : g.directed = false) (t : Option Int) :
    g.degreeSum t + (g.nodeList.filter (fun n => g.hasInteraction n n t)).length =
      2 * (g.interactions none t).length := by
  have hI := C02_interactions_once h hn t
  have hIn := q2_nodup_of_pairwise_key hI
  have hloopsN : ((g.nodeList.filter (fun n => g.hasInteraction n n t)).map (fun n => (n, n))).Nodup := by
    rw [List.Nodup, List.pairwise_map]
    refine (hn.nodup.filter _).imp ?_
    intro a b hab hc; injection hc with h1 _; exact hab h1
  have hloopsM : ∀ u v, (u, v) ∈ (g.nodeList.filter (fun n => g.hasInteraction n n t)).map (fun n => (n, n)) ↔
      (u = v ∧ g.hasInteraction u u t = true) := by
    intro u v
    rw [List.mem_map]
    constructor
    · rintro ⟨n, hnm, heq⟩
      injection heq with h1 h2; subst h1; subst h2
      exact ⟨rfl, (List.mem_filter.mp hnm).2⟩
    · rintro ⟨rfl, hp⟩
      exact ⟨u, List.mem_filter.mpr ⟨q2_has_node_left hn hp, hp⟩, rfl⟩
  have hperm : (g.outInteractions none t ++
        (g.nodeList.filter (fun n => g.hasInteraction n n t)).map (fun n => (n, n))).Perm
      (g.interactions none t ++ (g.interactions none t).map (fun p => (p.2, p.1))) := by
    rw [List.perm_iff_count]
    rintro ⟨u, v⟩
    rw [List.count_append, List.count_append, (C02_outInteractions_nodup h hn t).count, hloopsN.count,
      hIn.count, (q2_swap_nodup hIn).count]
    simp only [C02_outInteractions_directed hn, q2_mem_swap, hloopsM]
    by_cases huv : u = v
    · subst huv
      by_cases hp : g.hasInteraction u u t = true
      · have : (u, u) ∈ g.interactions none t := by
          rcases C02_interactions_complete hn hd t u u hp with h1 | h1 <;> exact h1
        simp [hp, this]
      · have : (u, u) ∉ g.interactions none t := fun hc => hp (C02_interactions_mem g t u u hc)
        simp [hp, this]
    · by_cases hp : g.hasInteraction u v t = true
      · have hne : (u, v) ≠ (v, u) := by
          intro hc; injection hc with e1 _; exact huv e1
        have hnot : ¬ ((u, v) ∈ g.interactions none t ∧ (v, u) ∈ g.interactions none t) := by
          rintro ⟨h1, h2⟩
          rcases q2_pairwise_both hI h1 h2 hne with h3 | h3
          · exact h3 (by simp [sameKey])
          · exact h3 (by simp [sameKey])
        rcases C02_interactions_complete hn hd t u v hp with h1 | h1
        · have : (v, u) ∉ g.interactions none t := fun hc => hnot ⟨h1, hc⟩
          simp [hp, huv, h1, this]
        · have : (u, v) ∉ g.interactions none t := fun hc => hnot ⟨hc, h1⟩
          simp [hp, huv, h1, this]
      · have h1 : (u, v) ∉ g.interactions none t := fun hc => hp (C02_interactions_mem g t u v hc)
        have h2 : (v, u) ∉ g.interactions none t := fun hc =>
          hp (by rw [q2_has_symm hd]; exact C02_interactions_mem g t v u hc)
        simp [hp, huv, h1, h2]
  have h1 : g.degreeSum t = (g.outInteractions none t).length := by
    rw [q2_degreeSum_eq, q2_length_out]
    simp [Graph.degree, hd, Graph.nbunch]
  have := hperm.length_eq
  rw [List.length_append, List.length_append, List.length_map, List.length_map] at this
  omega

/-! ### 4. density -/

theorem C02_density_flat (g : Graph) :
    g.density none =
      (if g.size none = 0 ∨ g.numberOfNodes none ≤ 1 then (0, 1)
       else (if g.directed then (g.size none, g.numberOfNodes none * (g.numberOfNodes none - 1))
             else (2 * g.size none, g.numberOfNodes none * (g.numberOfNodes none - 1)))) := by
  simp only [Graph.density]
  by_cases hc : g.size none = 0 ∨ g.numberOfNodes none ≤ 1
  · rw [if_pos hc, if_pos (by simpa using hc)]
  · rw [if_neg hc, if_neg (by simpa using hc)]

/-- known finding D15: with a snapshot id the functional `dn.density(G, t)` is always 0 -/
theorem C02_density_t_zero (g : Graph) (x : Int) : g.density (some x) = (0, 1) := rfl

theorem C02_numberOfNodes_flat (g : Graph) : g.numberOfNodes none = g.nodeList.length := rfl

/-! ### 5. degree histogram -/

theorem q2_le_maxNat (l : List Nat) (x : Nat) (hx : x ∈ l) : x ≤ maxNat l := by
  induction l with
  | nil => cases hx
  | cons a rest ih =>
    unfold maxNat
    rcases List.mem_cons.mp hx with rfl | h1
    · omega
    · have := ih h1; omega

theorem q2_countEq_map (l : List Node) (f : Node → Nat) (k : Nat) :
    countEq (l.map f) k = (l.filter (fun n => f n == k)).length := by
  unfold countEq
  rw [List.filter_map, List.length_map]
  rfl

theorem q2_countEq_zero (l : List Nat) (k : Nat) (hk : maxNat l < k) : countEq l k = 0 := by
  unfold countEq
  rw [List.length_eq_zero_iff, List.filter_eq_nil_iff]
  intro a ha hc
  have := q2_le_maxNat l a ha
  simp at hc
  omega

/-- entry `k` of the histogram is the number of nodes of degree `k` (0 beyond the list) -/
theorem C02_degreeHistogram (g : Graph) (t : Option Int) (k : Nat) :
    (g.degreeHistogram t).getD k 0 = (g.nodeList.filter (fun n => g.degree n t == k)).length := by
  rw [← q2_countEq_map]
  simp only [Graph.degreeHistogram]
  split
  · rename_i hemp
    rw [List.isEmpty_iff] at hemp
    rw [hemp]; rfl
  · rw [List.getD_eq_getElem?_getD, List.getElem?_map]
    by_cases hk : k < maxNat (g.nodeList.map (fun n => g.degree n t)) + 1
    · rw [List.getElem?_range hk]; rfl
    · rw [List.getElem?_eq_none (by simp; omega)]
      exact (q2_countEq_zero _ k (by omega)).symm

theorem C02_degreeHistogram_empty (g : Graph) (t : Option Int) (he : g.nodeList = []) :
    g.degreeHistogram t = [] := by
  simp [Graph.degreeHistogram, he]

theorem C02_degreeHistogram_length (g : Graph) (t : Option Int) (hne : g.nodeList ≠ []) :
    (g.degreeHistogram t).length = maxNat (g.nodeList.map (fun n => g.degree n t)) + 1 := by
  simp [Graph.degreeHistogram, hne]

theorem C02_degreeHistogram_beyond (g : Graph) (t : Option Int) (k : Nat)
    (hk : maxNat (g.nodeList.map (fun n => g.degree n t)) < k) :
    (g.degreeHistogram t).getD k 0 = 0 := by
  rw [C02_degreeHistogram, ← q2_countEq_map]
  exact q2_countEq_zero _ k hk

/-! ### 6. non-interactions -/

theorem q2_nonIntGo_mem (adj : Node → List Node) (ns : List Node) (hns : ns.Nodup) (u v : Node)
    (hm : (u, v) ∈ nonIntGo adj ns) : u ∈ ns ∧ v ∈ ns ∧ u ≠ v ∧ v ∉ adj u := by
  induction ns with
  | nil => simp [nonIntGo] at hm
  | cons n rest ih =>
    rw [List.nodup_cons] at hns
    unfold nonIntGo at hm
    rcases List.mem_append.mp hm with h1 | h2
    · obtain ⟨m, hm1, heq⟩ := List.mem_map.mp h1
      injection heq with h3 h4; subst h3; subst h4
      rw [List.mem_filter] at hm1
      obtain ⟨hr, hp⟩ := hm1
      simp only [Bool.not_eq_true', List.contains_eq_mem, decide_eq_false_iff_not] at hp
      exact ⟨List.mem_cons_self, List.mem_cons_of_mem _ hr, fun hc => hns.1 (hc ▸ hr), hp⟩
    · obtain ⟨a, b, c, d⟩ := ih hns.2 h2
      exact ⟨List.mem_cons_of_mem _ a, List.mem_cons_of_mem _ b, c, d⟩

theorem q2_nonIntGo_row (adj : Node → List Node) (n : Node) (rest : List Node) (m : Node)
    (hr : m ∈ rest) (ha : m ∉ adj n) : (n, m) ∈ nonIntGo adj (n :: rest) := by
  unfold nonIntGo
  refine List.mem_append_left _ (List.mem_map.mpr ⟨m, ?_, rfl⟩)
  rw [List.mem_filter]
  refine ⟨hr, ?_⟩
  simp only [Bool.not_eq_true', List.contains_eq_mem, decide_eq_false_iff_not]
  exact ha

theorem q2_nonIntGo_complete (adj : Node → List Node) (ns : List Node) (u v : Node)
    (hu : u ∈ ns) (hv : v ∈ ns) (huv : u ≠ v) (h1 : v ∉ adj u) (h2 : u ∉ adj v) :
    (u, v) ∈ nonIntGo adj ns ∨ (v, u) ∈ nonIntGo adj ns := by
  induction ns with
  | nil => cases hu
  | cons n rest ih =>
    by_cases hnu : n = u
    · subst hnu
      rcases List.mem_cons.mp hv with h3 | h3
      · exact absurd h3.symm huv
      · exact Or.inl (q2_nonIntGo_row adj n rest v h3 h1)
    · by_cases hnv : n = v
      · subst hnv
        rcases List.mem_cons.mp hu with h3 | h3
        · exact absurd h3.symm hnu
        · exact Or.inr (q2_nonIntGo_row adj n rest u h3 h2)
      · have hu' : u ∈ rest := by
          rcases List.mem_cons.mp hu with h3 | h3
          · exact absurd h3.symm hnu
          · exact h3
        have hv' : v ∈ rest := by
          rcases List.mem_cons.mp hv with h3 | h3
          · exact absurd h3.symm hnv
          · exact h3
        rcases ih hu' hv' with h3 | h3
        · left; unfold nonIntGo; exact List.mem_append_right _ h3
        · right; unfold nonIntGo; exact List.mem_append_right _ h3

theorem q2_nonIntGo_pairwise (adj : Node → List Node) (ns : List Node) (hns : ns.Nodup) :
    (nonIntGo adj ns).Pairwise (fun p q => ¬ (sameKey false p.1 p.2 q.1 q.2 = true)) := by
  induction ns with
  | nil => simp [nonIntGo]
  | cons n rest ih =>
    have hns' := hns
    rw [List.nodup_cons] at hns
    unfold nonIntGo
    rw [List.pairwise_append]
    refine ⟨?_, ih hns.2, ?_⟩
    · rw [List.pairwise_map]
      refine (hns.2.filter _).imp ?_
      intro a b hab hk
      simp only [sameKey] at hk
      grind
    · intro p hp q hq
      obtain ⟨m, _, rfl⟩ := List.mem_map.mp hp
      obtain ⟨a, b⟩ := q
      obtain ⟨ha, hb, _, _⟩ := q2_nonIntGo_mem adj rest hns.2 a b hq
      have h1 : a ≠ n := fun hc => hns.1 (hc ▸ ha)
      have h2 : b ≠ n := fun hc => hns.1 (hc ▸ hb)
      simp only [sameKey]
      grind

theorem C02_nonInteractions {g : Graph} (hn : q2_NodeInv g) (t : Option Int) (u v : Node)
    (hm : (u, v) ∈ g.nonInteractions t) :
    u ∈ g.nodeList ∧ v ∈ g.nodeList ∧ u ≠ v ∧ v ∉ g.allNeighbors u t :=
  q2_nonIntGo_mem _ _ hn.nodup u v hm

theorem C02_nonInteractions_complete (g : Graph) (t : Option Int) (u v : Node)
    (hu : u ∈ g.nodeList) (hv : v ∈ g.nodeList) (huv : u ≠ v)
    (h1 : v ∉ g.allNeighbors u t) (h2 : u ∉ g.allNeighbors v t) :
    (u, v) ∈ g.nonInteractions t ∨ (v, u) ∈ g.nonInteractions t :=
  q2_nonIntGo_complete _ _ u v hu hv huv h1 h2

theorem C02_nonInteractions_once {g : Graph} (hn : q2_NodeInv g) (t : Option Int) :
    (g.nonInteractions t).Pairwise (fun p q => ¬ (sameKey false p.1 p.2 q.1 q.2 = true)) :=
  q2_nonIntGo_pairwise _ _ hn.nodup

/-- `v ∈ all_neighbors(u, t)` is presence in either direction -/
theorem q2_mem_allNeighbors (g : Graph) (u v : Node) (t : Option Int) :
    v ∈ g.allNeighbors u t ↔ (g.hasInteraction u v t = true ∨ g.hasInteraction v u t = true) := by
  unfold Graph.allNeighbors
  cases hd : g.directed
  · simp only [Bool.false_eq_true, if_false, q2_mem_neighbors]
    rw [q2_has_symm hd v u]; simp
  · simp only [if_true, List.mem_append, q2_mem_neighbors, q2_mem_predecessors hd]
    exact Or.comm

/-- the listed pairs are exactly the unordered pairs of distinct nodes with no interaction at `t` -/
theorem C02_nonInteractions_iff {g : Graph} (hn : q2_NodeInv g) (t : Option Int) (u v : Node) :
    ((u, v) ∈ g.nonInteractions t ∨ (v, u) ∈ g.nonInteractions t) ↔
      (u ∈ g.nodeList ∧ v ∈ g.nodeList ∧ u ≠ v ∧
        g.hasInteraction u v t = false ∧ g.hasInteraction v u t = false) := by
  constructor
  · rintro (hm | hm)
    · obtain ⟨a, b, c, d⟩ := C02_nonInteractions hn t u v hm
      rw [q2_mem_allNeighbors] at d
      refine ⟨a, b, c, ?_, ?_⟩ <;> grind
    · obtain ⟨a, b, c, d⟩ := C02_nonInteractions hn t v u hm
      rw [q2_mem_allNeighbors] at d
      refine ⟨b, a, c.symm, ?_, ?_⟩ <;> grind
  · rintro ⟨a, b, c, d, e⟩
    refine C02_nonInteractions_complete g t u v a b c ?_ ?_
    · rw [q2_mem_allNeighbors]; simp [d, e]
    · rw [q2_mem_allNeighbors]; simp [d, e]

/-! ### 7. histories -/

theorem C02_history_interactions (ops : List Op) (u v : Node) (t : Option Int) :
    let g := ((Graph.empty false true).run ops).1
    q2_NodeInv g →
      ((u, v) ∈ g.interactions none t → g.hasInteraction u v t = true) ∧
      (g.hasInteraction u v t = true → ((u, v) ∈ g.interactions none t ∨ (v, u) ∈ g.interactions none t)) ∧
      (g.interactions none t).Pairwise (fun p q => ¬ (sameKey false p.1 p.2 q.1 q.2 = true)) ∧
      ((∀ n, g.hasInteraction n n t = false) → g.size t = (g.interactions none t).length) := by
  intro g hn
  have r := run_ok (Graph.empty false true) (WF.empty _ _) rfl ops
  have hd : g.directed = false := r.directed
  exact ⟨C02_interactions_mem g t u v, C02_interactions_complete hn hd t u v,
    C02_interactions_once r.wf hn t, C02_size_undirected r.wf hn hd t⟩

/-- in terms of the calls: a pair is listed at `x` (in one orientation) iff some accepted span of the
    history covers `x` -/
theorem C02_history_interactions_log (ops : List Op) (u v : Node) (x : Int) :
    let g := ((Graph.empty false true).run ops).1
    q2_NodeInv g →
      (((u, v) ∈ g.interactions none (some x) ∨ (v, u) ∈ g.interactions none (some x)) ↔
        inLog false ((Graph.empty false true).runLog ops) u v x) := by
  intro g hn
  have r := run_ok (Graph.empty false true) (WF.empty _ _) rfl ops
  have hd : g.directed = false := r.directed
  rw [← C02_interactions_iff hn hd, r.presence, empty_hasInteraction]
  simp [Graph.empty]

/-- directed histories: `out_interactions` lists every present interaction once, oriented, and
    `size` counts them -/
theorem C02_history_outInteractions (ops : List Op) (u v : Node) (t : Option Int) :
    let g := ((Graph.empty true true).run ops).1
    q2_NodeInv g →
      ((u, v) ∈ g.outInteractions none t ↔ g.hasInteraction u v t = true) ∧
      (g.outInteractions none t).Nodup ∧
      g.size t = (g.outInteractions none t).length := by
  intro g hn
  have r := run_ok (Graph.empty true true) (WF.empty _ _) rfl ops
  have hd : g.directed = true := r.directed
  exact ⟨C02_outInteractions_directed hn t u v, C02_outInteractions_nodup r.wf hn t,
    C02_size_directed r.wf hn hd t⟩

/-! ### 8. concrete witnesses -/

/-- triangle 0-1-2 plus a loop at 1, undirected, all at 5 -/
def q2_exU : Graph :=
  ((((Graph.empty false true).addInteraction 0 1 (some 5) none).1.addInteraction 1 2 (some 5) none).1
      |>.addInteraction 2 0 (some 5) none).1 |>.addInteraction 1 1 (some 5) none |>.1

/-- 0→1 and 2→0 at 5, directed -/
def q2_exD : Graph :=
  (((Graph.empty true true).addInteraction 0 1 (some 5) none).1.addInteraction 2 0 (some 5) none).1

/-- each undirected pair once (7 adjacency entries, 4 pairs), at an instant and flattened -/
example : q2_exU.interactions none (some 5) = [(0, 1), (0, 2), (1, 2), (1, 1)] ∧
    q2_exU.interactions none none = [(0, 1), (0, 2), (1, 2), (1, 1)] ∧
    (q2_exU.outInteractions none (some 5)).length = 7 ∧
    q2_exU.interactions none (some 6) = [] := by decide

/-- known finding D10: on a directed graph the `seen` set of `interactions_iter` drops 2→0 because 0 was
    visited before 2 -/
example : q2_exD.interactions none none = [(0, 1)] ∧
    q2_exD.outInteractions none none = [(0, 1), (2, 0)] ∧
    (q2_exD.interactions none none).length < (q2_exD.outInteractions none none).length ∧
    q2_exD.hasInteraction 2 0 none = true ∧ (2, 0) ∉ q2_exD.interactions none none := by decide

end Dynetx
