import DynetxProofs.C17
/-
  The per-interaction inter-event time distributions `inter_*event_time_distribution(u, v)` (outside the text of C17,
  which lists the global, per-node and in/out variants, but part of the same code): the histogram of the gaps between
  consecutive boundaries of the pair's runs.  For a canonical timeline (C03) the boundaries are sorted, so the same
  laws hold: total mass = #boundaries − 1, weighted sum = last − first boundary.
-/
namespace Dynetx

theorem c17p_boundary_lower (tl : List Span) (h : CanonAsc tl) (s : Span) (rest : List Span) (htl : tl = s :: rest) :
    ∀ x ∈ boundaryList rest, s.2 < x := by
  subst htl
  induction rest generalizing s with
  | nil => intro x hx; simp [boundaryList] at hx
  | cons r rest ih =>
    intro x hx
    obtain ⟨h1, h2, h3⟩ := h
    simp only [boundaryList, List.flatMap_cons, List.mem_append] at hx
    rcases hx with hx | hx
    · have hr : r.1 ≤ r.2 := by
        cases rest with
        | nil => exact h3
        | cons _ _ => exact h3.1
      split at hx
      · simp only [List.mem_cons, List.not_mem_nil, or_false] at hx
        rcases hx with rfl | rfl <;> omega
      · simp only [List.mem_singleton] at hx
        subst hx; omega
    · have := ih r h3 x (by simpa [boundaryList] using hx)
      have hr : r.1 ≤ r.2 := by
        cases rest with
        | nil => exact h3
        | cons _ _ => exact h3.1
      omega

/-- the boundaries of a canonical timeline are listed in non-decreasing order -/
theorem c17p_boundary_sorted (tl : List Span) (h : CanonAsc tl) : (boundaryList tl).Pairwise (· ≤ ·) := by
  induction tl with
  | nil => simp [boundaryList]
  | cons s rest ih =>
    have hrest : CanonAsc rest := by
      cases rest with
      | nil => trivial
      | cons r rest' => exact h.2.2
    have hs : s.1 ≤ s.2 := by
      cases rest with
      | nil => exact h
      | cons _ _ => exact h.1
    have hlow := c17p_boundary_lower (s :: rest) h s rest rfl
    simp only [boundaryList, List.flatMap_cons]
    rw [List.pairwise_append]
    refine ⟨?_, by simpa [boundaryList] using ih hrest, ?_⟩
    · split
      · simp only [List.pairwise_cons, List.mem_cons, List.not_mem_nil, or_false, forall_eq, List.Pairwise.nil,
          and_true, forall_const, false_imp_iff]
        exact hs
      · simp
    · intro a ha b hb
      have hb' := hlow b (by simpa [boundaryList] using hb)
      split at ha
      · simp only [List.mem_cons, List.not_mem_nil, or_false] at ha
        rcases ha with rfl | rfl <;> omega
      · simp only [List.mem_singleton] at ha
        subst ha; omega

/-- **per-interaction inter-event distribution**: for a canonical timeline it is the gap histogram of the sorted
    boundary list (mass, weighted sum, distinct non-negative keys, exact counts) -/
theorem C17_interEvent_pair_of_canon (tl : List Span) (h : CanonAsc tl) :
    c17_IsGapDist (gapHist (boundaryList tl)) (boundaryList tl) :=
  c17_isGapDist _ (c17p_boundary_sorted tl h)

/-- undirected graphs: the call raises `KeyError` exactly when the pair was never added -/
theorem C17_interEvent_pair_undirected (g : Graph) (hd : g.directed = false) (u v : Node) :
    g.interEventPair u v = (match g.timeline u v with
      | some tl => .ok (gapHist (boundaryList tl))
      | none => .error .key) := by
  unfold Graph.interEventPair
  simp only [hd, Bool.false_eq_true, if_false]
  cases g.timeline u v <;> rfl

/-- directed graphs: the arc `v -> u` if it is stored, else `u -> v`, else the empty distribution; the in / out
    variants look at one orientation only -/
theorem C17_interEvent_pair_directed (g : Graph) (hd : g.directed = true) (u v : Node) :
    g.interEventPair u v = .ok (match g.arcTimeline v u with
      | some tl => gapHist (boundaryList tl)
      | none => g.interEventPairOut u v) ∧
    g.interEventPairIn u v = g.interEventPairOut v u := by
  refine ⟨?_, rfl⟩
  unfold Graph.interEventPair Graph.interEventPairOut
  simp only [hd, if_true]
  cases g.arcTimeline v u with
  | some tl => rfl
  | none => cases g.arcTimeline u v <;> rfl

end Dynetx
