import DynetxProofs.Lemmas.CountsHistory
/-
  C17: the temporal statistics (stream-graph measures) and the inter-event time distributions.
  Part A: the histograms `gapHist` (mass, weighted sum, per-key count, distinct keys) and what the four
          inter-event distributions are.
  Part B: the ratio measures have numerator ≤ denominator; their stream-graph readings.
-/
namespace Dynetx

/-! ## sums -/

theorem c17_foldl_nat (l : List Nat) (a : Nat) : l.foldl (· + ·) a = a + sumNat l := by
  unfold sumNat
  induction l generalizing a with
  | nil => simp
  | cons x xs ih => simp only [List.foldl_cons]; rw [ih, ih (0 + x)]; omega

theorem c17_sumNat_nil : sumNat [] = 0 := rfl

theorem c17_sumNat_cons (x : Nat) (l : List Nat) : sumNat (x :: l) = x + sumNat l := by
  show (x :: l).foldl (· + ·) 0 = _
  simp only [List.foldl_cons]; rw [c17_foldl_nat]; omega

theorem c17_sumNat_append (l m : List Nat) : sumNat (l ++ m) = sumNat l + sumNat m := by
  induction l with
  | nil => simp [c17_sumNat_nil]
  | cons x xs ih => simp only [List.cons_append, c17_sumNat_cons, ih]; omega

/-- the integer sum used by the model (`foldl (·+·) 0`) -/
def c17_sumInt (l : List Int) : Int := l.foldl (· + ·) 0

theorem c17_foldl_int (l : List Int) (a : Int) : l.foldl (· + ·) a = a + c17_sumInt l := by
  unfold c17_sumInt
  induction l generalizing a with
  | nil => simp
  | cons x xs ih => simp only [List.foldl_cons]; rw [ih, ih (0 + x)]; omega

theorem c17_sumInt_cons (x : Int) (l : List Int) : c17_sumInt (x :: l) = x + c17_sumInt l := by
  show (x :: l).foldl (· + ·) 0 = _
  simp only [List.foldl_cons]; rw [c17_foldl_int]; omega

theorem c17_sum_le_sum {α : Type} (l : List α) (f h : α → Nat) (hle : ∀ x ∈ l, f x ≤ h x) :
    sumNat (l.map f) ≤ sumNat (l.map h) := by
  induction l with
  | nil => exact Nat.le_refl _
  | cons x xs ih =>
    simp only [List.map_cons, c17_sumNat_cons]
    have h1 := hle x List.mem_cons_self
    have h2 := ih (fun y hy => hle y (List.mem_cons_of_mem _ hy))
    omega

theorem c17_sum_le_mul {α : Type} (l : List α) (f : α → Nat) (N : Nat) (hle : ∀ x ∈ l, f x ≤ N) :
    sumNat (l.map f) ≤ l.length * N := by
  induction l with
  | nil => simp [c17_sumNat_nil]
  | cons x xs ih =>
    simp only [List.map_cons, c17_sumNat_cons, List.length_cons]
    have h1 := hle x List.mem_cons_self
    have h2 := ih (fun y hy => hle y (List.mem_cons_of_mem _ hy))
    rw [Nat.add_mul]; omega

/-- a sum of indicators is the number of elements satisfying the predicate -/
theorem c17_sum_b2n {α : Type} (l : List α) (p : α → Bool) :
    sumNat (l.map (fun x => b2n (p x))) = (l.filter p).length := by
  induction l with
  | nil => rfl
  | cons x xs ih =>
    simp only [List.map_cons, c17_sumNat_cons, ih, List.filter_cons]
    cases p x <;> simp [b2n]; omega

/-! ## Part A: histograms -/

/-- weighted sum `Σ gap · count` of a histogram, as the model-style fold -/
def c17_wsum (h : List (Int × Nat)) : Int := (h.map (fun p => p.1 * (p.2 : Int))).foldl (· + ·) 0

theorem c17_histAdd_mass (h : List (Int × Nat)) (k : Int) :
    sumNat ((histAdd h k).map (·.2)) = sumNat (h.map (·.2)) + 1 := by
  induction h with
  | nil => simp [histAdd, c17_sumNat_cons, c17_sumNat_nil]
  | cons p rest ih =>
    obtain ⟨k', c⟩ := p
    unfold histAdd
    split
    · simp only [List.map_cons, c17_sumNat_cons]; omega
    · simp only [List.map_cons, c17_sumNat_cons, ih]; omega

theorem c17_gapHist_cons2 (a b : Int) (rest : List Int) :
    gapHist (a :: b :: rest) = histAdd (gapHist (b :: rest)) (b - a) := by
  rw [gapHist]

theorem c17_gapHist_single (a : Int) : gapHist [a] = [] := by
  rw [gapHist]; intro a b rest h; cases h

theorem c17_gapHist_nil : gapHist [] = [] := by
  rw [gapHist]; intro a b rest h; cases h

/-- A1: the total mass of the gap histogram is the number of events minus one -/
theorem c17_hist_mass (l : List Int) : sumNat ((gapHist l).map (·.2)) = l.length - 1 := by
  induction l with
  | nil => rw [c17_gapHist_nil]; rfl
  | cons a rest ih =>
    cases rest with
    | nil => rw [c17_gapHist_single]; rfl
    | cons b rest' =>
      rw [c17_gapHist_cons2, c17_histAdd_mass, ih]
      simp

theorem c17_wsum_histAdd (h : List (Int × Nat)) (k : Int) : c17_wsum (histAdd h k) = c17_wsum h + k := by
  show c17_sumInt _ = c17_sumInt _ + k
  induction h with
  | nil => simp [histAdd, c17_sumInt]
  | cons p rest ih =>
    obtain ⟨k', c⟩ := p
    unfold histAdd
    split
    · rename_i hk
      have : k' = k := by simpa using hk
      subst this
      simp only [List.map_cons, c17_sumInt_cons]
      rw [Int.natCast_add, Int.mul_add]; simp; omega
    · simp only [List.map_cons, c17_sumInt_cons, ih]; omega

/-- A2: the weighted sum of the gap histogram telescopes to last − first (no sortedness needed) -/
theorem c17_hist_weighted (l : List Int) :
    ((gapHist l).map (fun p => p.1 * (p.2 : Int))).foldl (· + ·) 0 = (l.getLast?.getD 0) - (l.head?.getD 0) := by
  show c17_wsum (gapHist l) = _
  induction l with
  | nil => rw [c17_gapHist_nil]; rfl
  | cons a rest ih =>
    cases rest with
    | nil => rw [c17_gapHist_single]; simp [c17_wsum]
    | cons b rest' =>
      rw [c17_gapHist_cons2, c17_wsum_histAdd, ih]
      simp [List.getLast?_cons_cons]; omega

/-- number of adjacent pairs `(a, b)` of `l` with `b - a = k` -/
def c17_gapCount (l : List Int) (k : Int) : Nat := (l.zip l.tail).countP (fun p => p.2 - p.1 == k)

theorem c17_lookup_histAdd (h : List (Int × Nat)) (k x : Int) :
    lookupSnap (histAdd h k) x = lookupSnap h x + (if k = x then 1 else 0) := by
  induction h with
  | nil => by_cases hx : k = x <;> simp [histAdd, lookupSnap, hx]
  | cons p rest ih =>
    obtain ⟨k', c⟩ := p
    unfold histAdd
    by_cases hk : k' = k
    · subst hk
      simp only [beq_self_eq_true, if_true]
      by_cases hx : k' = x <;> simp [lookupSnap, hx]
    · have hk' : (k' == k) = false := by simp [hk]
      simp only [hk', Bool.false_eq_true, if_false]
      by_cases hx : k' = x
      · subst hx
        have : ¬ k = k' := fun h => hk h.symm
        simp [lookupSnap, this]
      · have hx' : (k' == x) = false := by simp [hx]
        simp only [lookupSnap, hx', Bool.false_eq_true, if_false, ih]

theorem c17_histAdd_keys (h : List (Int × Nat)) (k : Int) :
    ∀ x, x ∈ (histAdd h k).map (·.1) ↔ x ∈ h.map (·.1) ∨ x = k := by
  induction h with
  | nil => intro x; simp [histAdd]
  | cons p rest ih =>
    obtain ⟨k', c⟩ := p
    intro x
    unfold histAdd
    by_cases hk : k' = k
    · subst hk
      simp only [beq_self_eq_true, if_true, List.map_cons, List.mem_cons]
      constructor
      · rintro (h | h)
        · exact Or.inr h
        · exact Or.inl (Or.inr h)
      · rintro ((h | h) | h)
        · exact Or.inl h
        · exact Or.inr h
        · exact Or.inl h
    · have hk' : (k' == k) = false := by simp [hk]
      simp only [hk', Bool.false_eq_true, if_false, List.map_cons, List.mem_cons, ih x]
      constructor
      · rintro (h | h | h)
        · exact Or.inl (Or.inl h)
        · exact Or.inl (Or.inr h)
        · exact Or.inr h
      · rintro ((h | h) | h)
        · exact Or.inl h
        · exact Or.inr (Or.inl h)
        · exact Or.inr (Or.inr h)

theorem c17_histAdd_nodup (h : List (Int × Nat)) (k : Int) (hnd : (h.map (·.1)).Nodup) :
    ((histAdd h k).map (·.1)).Nodup := by
  induction h with
  | nil => simp [histAdd]
  | cons p rest ih =>
    obtain ⟨k', c⟩ := p
    simp only [List.map_cons, List.nodup_cons] at hnd
    unfold histAdd
    by_cases hk : k' = k
    · subst hk
      simp only [beq_self_eq_true, if_true, List.map_cons, List.nodup_cons]
      exact hnd
    · have hk' : (k' == k) = false := by simp [hk]
      simp only [hk', Bool.false_eq_true, if_false, List.map_cons, List.nodup_cons]
      refine ⟨?_, ih hnd.2⟩
      intro hm
      rcases (c17_histAdd_keys rest k k').mp hm with h | h
      · exact hnd.1 h
      · exact hk h

/-- A3a: the keys (gaps) of the histogram are pairwise distinct -/
theorem c17_hist_keys_nodup (l : List Int) : ((gapHist l).map (·.1)).Nodup := by
  induction l with
  | nil => rw [c17_gapHist_nil]; exact List.nodup_nil
  | cons a rest ih =>
    cases rest with
    | nil => rw [c17_gapHist_single]; exact List.nodup_nil
    | cons b rest' => rw [c17_gapHist_cons2]; exact c17_histAdd_nodup _ _ ih

/-- A3b: the count stored for gap `k` (0 if `k` is not a key) is the number of adjacent pairs at
    distance `k` -/
theorem c17_hist_count (l : List Int) (k : Int) : lookupSnap (gapHist l) k = c17_gapCount l k := by
  induction l with
  | nil => rw [c17_gapHist_nil]; rfl
  | cons a rest ih =>
    cases rest with
    | nil => rw [c17_gapHist_single]; rfl
    | cons b rest' =>
      rw [c17_gapHist_cons2, c17_lookup_histAdd, ih]
      unfold c17_gapCount
      simp only [List.tail_cons, List.zip_cons_cons, List.countP_cons]
      by_cases h : b - a = k <;> simp [h]

/-- a key is stored only with a positive count: `k` is a key iff some adjacent pair is at distance `k` -/
theorem c17_hist_key_iff (l : List Int) (k : Int) :
    k ∈ (gapHist l).map (·.1) ↔ 0 < c17_gapCount l k := by
  induction l with
  | nil => rw [c17_gapHist_nil]; simp [c17_gapCount]
  | cons a rest ih =>
    cases rest with
    | nil => rw [c17_gapHist_single]; simp [c17_gapCount]
    | cons b rest' =>
      rw [c17_gapHist_cons2, c17_histAdd_keys, ih]
      unfold c17_gapCount
      simp only [List.tail_cons, List.zip_cons_cons, List.countP_cons]
      by_cases h : b - a = k
      · simp [h]
      · have : ¬ k = b - a := fun h' => h h'.symm
        simp [h, this]

/-- on a sorted list every gap is non-negative -/
theorem c17_hist_keys_nonneg (l : List Int) (hs : l.Pairwise (· ≤ ·)) : ∀ k ∈ (gapHist l).map (·.1), 0 ≤ k := by
  induction l with
  | nil => rw [c17_gapHist_nil]; intro k hk; cases hk
  | cons a rest ih =>
    cases rest with
    | nil => rw [c17_gapHist_single]; intro k hk; cases hk
    | cons b rest' =>
      intro k hk
      rw [c17_gapHist_cons2, c17_histAdd_keys] at hk
      rw [List.pairwise_cons] at hs
      rcases hk with hk | hk
      · exact ih hs.2 k hk
      · have := hs.1 b List.mem_cons_self; omega

/-! ### the four distributions -/

theorem c17_stream_sorted (g : Graph) : g.stream.Pairwise (fun a b => a.t ≤ b.t) := by
  unfold Graph.stream
  have := List.pairwise_mergeSort (le := fun (a b : Ev) => decide (a.t ≤ b.t))
    (by intro a b c hab hbc; simp at *; omega) (by intro a b; simp; omega) g.events
  exact this.imp (by intro a b h; simpa using h)

theorem c17_stream_length (g : Graph) : g.stream.length = g.events.length := by
  unfold Graph.stream; exact List.length_mergeSort _

theorem c17_times_sorted (g : Graph) (p : Ev → Bool) :
    ((g.stream.filter p).map (·.t)).Pairwise (· ≤ ·) := by
  rw [List.pairwise_map]
  exact (c17_stream_sorted g).filter p

/-- what is stated of each distribution: it is `gapHist` of a sorted list `ts` of times; its mass is
    `|ts| − 1`, its weighted sum `last − first`, its keys distinct and non-negative, and the count of
    gap `k` is the number of consecutive events `k` apart -/
structure c17_IsGapDist (h : List (Int × Nat)) (ts : List Int) : Prop where
  eq : h = gapHist ts
  sorted : ts.Pairwise (· ≤ ·)
  mass : sumNat (h.map (·.2)) = ts.length - 1
  weighted : (h.map (fun p => p.1 * (p.2 : Int))).foldl (· + ·) 0 = (ts.getLast?.getD 0) - (ts.head?.getD 0)
  keys_nodup : (h.map (·.1)).Nodup
  keys_nonneg : ∀ k ∈ h.map (·.1), 0 ≤ k
  count : ∀ k, lookupSnap h k = c17_gapCount ts k

theorem c17_isGapDist (ts : List Int) (hs : ts.Pairwise (· ≤ ·)) : c17_IsGapDist (gapHist ts) ts :=
  ⟨rfl, hs, c17_hist_mass ts, c17_hist_weighted ts, c17_hist_keys_nodup ts, c17_hist_keys_nonneg ts hs,
    c17_hist_count ts⟩

theorem C17_interEvent_global (g : Graph) :
    c17_IsGapDist g.interEventGlobal (g.stream.map (·.t)) ∧ (g.stream.map (·.t)).length = g.events.length := by
  refine ⟨c17_isGapDist _ ?_, by rw [List.length_map, c17_stream_length]⟩
  rw [List.pairwise_map]; exact c17_stream_sorted g

theorem C17_interEvent_node (g : Graph) (u : Node) :
    c17_IsGapDist (g.interEventNode u) ((g.stream.filter (fun e => e.u == u || e.v == u)).map (·.t)) :=
  c17_isGapDist _ (c17_times_sorted g _)

theorem C17_interEvent_out (g : Graph) (u : Node) :
    c17_IsGapDist (g.interEventOut u) ((g.stream.filter (fun e => e.u == u)).map (·.t)) :=
  c17_isGapDist _ (c17_times_sorted g _)

theorem C17_interEvent_in (g : Graph) (u : Node) :
    c17_IsGapDist (g.interEventIn u) ((g.stream.filter (fun e => e.v == u)).map (·.t)) :=
  c17_isGapDist _ (c17_times_sorted g _)

/-! ## Part B: the ratio measures -/

theorem c17_numberOfNodes_le (g : Graph) (t : Option Int) : g.numberOfNodes t ≤ g.numberOfNodes none := by
  unfold Graph.numberOfNodes Graph.nodesAt
  cases t with
  | none => exact Nat.le_refl _
  | some t => exact List.length_filter_le _ _

theorem c17_b2n_le_one (b : Bool) : b2n b ≤ 1 := by cases b <;> simp [b2n]

theorem c17_snapKeys_length (g : Graph) : g.snapKeys.length = g.snaps.length := by
  unfold Graph.snapKeys; simp

/-- B5: coverage ≤ 1, for every graph -/
theorem C17_coverage_le (g : Graph) : g.coverage.1 ≤ g.coverage.2 := by
  show sumNat (g.snapKeys.map (fun t => g.numberOfNodes (some t))) ≤ g.snaps.length * g.numberOfNodes none
  rw [← c17_snapKeys_length]
  exact c17_sum_le_mul _ _ _ (fun t _ => c17_numberOfNodes_le g (some t))

/-- B6a: node contribution ≤ 1, for every graph -/
theorem C17_nodeContribution_le (g : Graph) (u : Node) : (g.nodeContribution u).1 ≤ (g.nodeContribution u).2 := by
  show sumNat (g.snapKeys.map (fun t => b2n (g.hasNode u (some t)))) ≤ g.snaps.length
  rw [← c17_snapKeys_length]
  have := c17_sum_le_mul g.snapKeys (fun t => b2n (g.hasNode u (some t))) 1 (fun t _ => c17_b2n_le_one _)
  omega

/-- B6b: |A ∩ B| ≤ |A ∪ B| as computed, for every graph -/
theorem C17_nodePairUniformity_le (g : Graph) (u v : Node) :
    (g.nodePairUniformity u v).1 ≤ (g.nodePairUniformity u v).2 := by
  show ((g.nodePresence u).filter (fun t => (g.nodePresence v).contains t)).length
      ≤ (g.nodePresence u ++ (g.nodePresence v).filter (fun t => !(g.nodePresence u).contains t)).length
  rw [List.length_append]
  have := List.length_filter_le (fun t => (g.nodePresence v).contains t) (g.nodePresence u)
  omega

/-- B6c: uniformity ≤ 1, for every graph -/
theorem C17_uniformity_le (g : Graph) : g.uniformity.1 ≤ g.uniformity.2 := by
  show sumNat ((pairsOf g.nodeList).map _) ≤ sumNat ((pairsOf g.nodeList).map _)
  apply c17_sum_le_sum
  rintro ⟨u, v⟩ _
  apply c17_sum_le_sum
  intro t _
  cases g.hasNode u (some t) <;> cases g.hasNode v (some t) <;> simp [b2n]

/-! ### an interaction at `t` makes both endpoints present at `t` -/

theorem c17_hasInteraction_symm (g : Graph) (hd : g.directed = false) (u v : Node) (t : Option Int) :
    g.hasInteraction u v t = g.hasInteraction v u t := by
  unfold Graph.hasInteraction Graph.findEdge
  rw [hd]
  have : (fun e : Edge => sameKey false e.u e.v u v) = (fun e : Edge => sameKey false e.u e.v v u) := by
    funext e; exact sameKey_swap_undirected _ _ _ _
  rw [this]

theorem c17_out_pos (g : Graph) {e : Edge} (he : e ∈ g.edges) {a b : Node} {t : Int}
    (hk : (e.u = a ∧ e.v = b) ∨ (g.directed = false ∧ e.v = a ∧ e.u = b))
    (hi : g.hasInteraction a b (some t) = true) : 0 < g.outDegree a (some t) := by
  unfold Graph.outDegree
  apply List.length_pos_of_mem (a := b)
  unfold Graph.neighbors
  rw [List.mem_filter]
  refine ⟨?_, hi⟩
  unfold Graph.succs
  rw [List.mem_filterMap]
  refine ⟨e, he, ?_⟩
  rcases hk with ⟨h1, h2⟩ | ⟨hd, h1, h2⟩
  · simp [h1, h2]
  · by_cases h3 : e.u = a
    · have : e.v = b := h1.trans (h3.symm.trans h2)
      simp [h3, this]
    · subst h1 h2
      simp [h3, hd]

theorem c17_in_pos (g : Graph) {e : Edge} (he : e ∈ g.edges) {a b : Node} {t : Int}
    (h1 : e.u = a) (h2 : e.v = b) (hi : g.hasInteraction a b (some t) = true) :
    0 < g.inDegree b (some t) := by
  unfold Graph.inDegree
  apply List.length_pos_of_mem (a := a)
  unfold Graph.predecessors
  rw [List.mem_filter]
  refine ⟨?_, hi⟩
  unfold Graph.preds
  rw [List.mem_filterMap]
  exact ⟨e, he, by simp [h1, h2]⟩

/-- both graph classes; the only hypothesis is that the endpoints of stored pairs are nodes -/
theorem c17_hasInteraction_hasNode (g : Graph)
    (hn : ∀ e ∈ g.edges, g.hasNodeFlat e.u = true ∧ g.hasNodeFlat e.v = true)
    {u v : Node} {t : Int} (hi : g.hasInteraction u v (some t) = true) :
    g.hasNode u (some t) = true ∧ g.hasNode v (some t) = true := by
  have hi0 := hi
  unfold Graph.hasInteraction at hi
  cases hf : g.findEdge u v with
  | none => simp [hf] at hi
  | some e =>
    obtain ⟨hem, hek⟩ := findEdge_some hf
    obtain ⟨hnu, hnv⟩ := hn e hem
    unfold Graph.hasNode Graph.degree
    cases hd : g.directed with
    | true =>
      rw [hd] at hek
      obtain ⟨h1, h2⟩ := (sameKey_directed_iff _ _ _ _).mp hek
      have ho := c17_out_pos g hem (Or.inl ⟨h1, h2⟩) hi0
      have hin := c17_in_pos g hem h1 h2 hi0
      rw [h1] at hnu; rw [h2] at hnv
      simp only [hnu, hnv, if_true, Bool.true_and, decide_eq_true_eq]
      constructor <;> omega
    | false =>
      rw [hd] at hek
      have hi1 : g.hasInteraction v u (some t) = true := by rw [← c17_hasInteraction_symm g hd]; exact hi0
      have hk : (e.u = u ∧ e.v = v) ∨ (e.u = v ∧ e.v = u) := by
        simp [sameKey] at hek; omega
      rcases hk with ⟨h1, h2⟩ | ⟨h1, h2⟩
      · have ho := c17_out_pos g hem (Or.inl ⟨h1, h2⟩) hi0
        have ho' := c17_out_pos g hem (Or.inr ⟨hd, h2, h1⟩) hi1
        rw [h1] at hnu; rw [h2] at hnv
        simp only [hnu, hnv, Bool.false_eq_true, if_false, Bool.true_and, decide_eq_true_eq]
        exact ⟨ho, ho'⟩
      · have ho := c17_out_pos g hem (Or.inr ⟨hd, h2, h1⟩) hi0
        have ho' := c17_out_pos g hem (Or.inl ⟨h1, h2⟩) hi1
        rw [h1] at hnu; rw [h2] at hnv
        simp only [hnu, hnv, Bool.false_eq_true, if_false, Bool.true_and, decide_eq_true_eq]
        exact ⟨ho, ho'⟩

theorem c17_pair_pointwise (g : Graph)
    (hn : ∀ e ∈ g.edges, g.hasNodeFlat e.u = true ∧ g.hasNodeFlat e.v = true) (u v : Node) (t : Int) :
    b2n (g.hasInteraction u v (some t)) ≤ b2n (g.hasNode u (some t) && g.hasNode v (some t)) := by
  cases hi : g.hasInteraction u v (some t) with
  | false => simp [b2n]
  | true =>
    obtain ⟨h1, h2⟩ := c17_hasInteraction_hasNode g hn hi
    simp [h1, h2]

/-- B6d: pair density ≤ 1 (both graph classes, any mode) when the endpoints of stored pairs are nodes -/
theorem C17_pairDensity_le (g : Graph)
    (hn : ∀ e ∈ g.edges, g.hasNodeFlat e.u = true ∧ g.hasNodeFlat e.v = true) (u v : Node) :
    (g.pairDensity u v).1 ≤ (g.pairDensity u v).2 := by
  show sumNat (g.snapKeys.map _) ≤ sumNat (g.snapKeys.map _)
  exact c17_sum_le_sum _ _ _ (fun t _ => c17_pair_pointwise g hn u v t)

/-- B6e: density ≤ 1 under the same hypothesis -/
theorem C17_tdensity_le (g : Graph)
    (hn : ∀ e ∈ g.edges, g.hasNodeFlat e.u = true ∧ g.hasNodeFlat e.v = true) :
    g.tdensity.1 ≤ g.tdensity.2 := by
  show sumNat ((pairsOf g.nodeList).map _) ≤ sumNat ((pairsOf g.nodeList).map _)
  apply c17_sum_le_sum
  rintro ⟨u, v⟩ _
  exact c17_sum_le_sum _ _ _ (fun t _ => c17_pair_pointwise g hn u v t)

/-! ### edge contribution -/

/-- the instants covered by a timeline -/
def c17_instants (tl : List Span) : List Int := tl.flatMap (fun s => irange s.1 s.2)

theorem c17_instants_cons (s : Span) (tl : List Span) :
    c17_instants (s :: tl) = irange s.1 s.2 ++ c17_instants tl := by
  simp [c17_instants]

theorem c17_mem_instants (tl : List Span) (x : Int) : x ∈ c17_instants tl ↔ memTl tl x := by
  unfold c17_instants memTl
  simp only [List.mem_flatMap, mem_irange]

theorem c17_irange_length (lo hi : Int) : (irange lo hi).length = (hi + 1 - lo).toNat := by
  unfold irange; simp

/-- `Σ (hi − lo + 1)` over a canonical timeline is the number of covered instants -/
theorem c17_instants_length (tl : List Span) (hc : Canon tl) :
    ((c17_instants tl).length : Int) = (tl.map (fun s => s.2 - s.1 + 1)).foldl (· + ·) 0 := by
  show _ = c17_sumInt _
  induction tl with
  | nil => rfl
  | cons s rest ih =>
    have h1 := hc.head_le
    have h2 := ih hc.tail
    rw [c17_instants_cons, List.length_append, c17_irange_length, List.map_cons, c17_sumInt_cons]
    omega

theorem c17_instants_nodup (tl : List Span) (hc : Canon tl) : (c17_instants tl).Nodup := by
  induction tl with
  | nil => exact List.nodup_nil
  | cons s rest ih =>
    rw [c17_instants_cons, List.nodup_append]
    refine ⟨irange_nodup _ _, ih hc.tail, ?_⟩
    intro a ha b hb hab
    subst hab
    rw [mem_irange] at ha
    rw [c17_mem_instants] at hb
    obtain ⟨r, hr, hx⟩ := hb
    have := hc.below r hr
    omega

theorem c17_nodup_subset_length {l m : List Int} (hnd : l.Nodup) (hs : ∀ x ∈ l, x ∈ m) :
    l.length ≤ m.length := by
  induction l generalizing m with
  | nil => simp
  | cons x xs ih =>
    rw [List.nodup_cons] at hnd
    have hx := hs x List.mem_cons_self
    have h1 := ih (m := m.erase x) hnd.2
      (fun y hy => (List.mem_erase_of_ne (by rintro rfl; exact hnd.1 hy)).mpr (hs y (List.mem_cons_of_mem _ hy)))
    rw [List.length_erase_of_mem hx] at h1
    have h2 : 0 < m.length := List.length_pos_of_mem hx
    rw [List.length_cons]; omega

/-- an instant of a stored timeline is a snapshot key -/
theorem c17_memTl_snapKey {g : Graph} (hs : SnapInv g) {e : Edge} (he : e ∈ g.edges) {x : Int}
    (hm : memTl e.tl x) : x ∈ g.snapKeys := by
  unfold Graph.snapKeys
  rw [← lookupSnap_pos_iff hs.ok, hs.count x]
  have : 0 < g.countAt x := by
    unfold Graph.countAt
    rw [List.countP_pos_iff]
    exact ⟨e, he, (presentTl_iff _ _).mpr hm⟩
  omega

/-- B6f: in removal mode the numerator of `edge_contribution(u, v)` is the number of snapshot ids at
    which the pair is present (which is also the numerator of `pair_density`), hence in `[0, T]` -/
theorem C17_edgeContribution (g : Graph) (h : WF g) (hr : g.removal = true) (hs : SnapInv g) (u v : Node)
    (n : Int) (d : Nat) (he : g.edgeContribution u v = some (n, d)) :
    d = g.snaps.length ∧
    n = ((g.snapKeys.filter (fun t => g.hasInteraction u v (some t))).length : Int) ∧
    n = ((g.pairDensity u v).1 : Int) ∧ 0 ≤ n ∧ n ≤ (d : Int) := by
  unfold Graph.edgeContribution at he
  cases hf : g.findEdge u v with
  | none => simp [hf] at he
  | some e =>
    simp only [hf, Option.map_some, Option.some.injEq, Prod.mk.injEq] at he
    obtain ⟨hn', hd'⟩ := he
    obtain ⟨hem, hek⟩ := findEdge_some hf
    have hc := (h.tl e hem).2
    have hpres : ∀ x, g.hasInteraction u v (some x) = true ↔ memTl e.tl x := by
      intro x
      unfold Graph.hasInteraction
      simp only [hf]
      exact presenceTest_iff g hr e.tl hc x
    have hI := c17_instants_nodup e.tl hc
    have hK : (g.snapKeys.filter (fun t => g.hasInteraction u v (some t))).Nodup := by
      unfold Graph.snapKeys
      exact hs.ok.nodup.filter _
    have hIK : ∀ x ∈ c17_instants e.tl, x ∈ g.snapKeys.filter (fun t => g.hasInteraction u v (some t)) := by
      intro x hx
      rw [c17_mem_instants] at hx
      rw [List.mem_filter]
      exact ⟨c17_memTl_snapKey hs hem hx, (hpres x).mpr hx⟩
    have hKI : ∀ x ∈ g.snapKeys.filter (fun t => g.hasInteraction u v (some t)), x ∈ c17_instants e.tl := by
      intro x hx
      rw [List.mem_filter] at hx
      rw [c17_mem_instants]
      exact (hpres x).mp hx.2
    have hlen := c17_instants_length e.tl hc
    have l1 := c17_nodup_subset_length hI hIK
    have l2 := c17_nodup_subset_length hK hKI
    have l3 := List.length_filter_le (fun t => g.hasInteraction u v (some t)) g.snapKeys
    have l4 := c17_snapKeys_length g
    have hpd : (g.pairDensity u v).1 = (g.snapKeys.filter (fun t => g.hasInteraction u v (some t))).length :=
      c17_sum_b2n _ _
    refine ⟨hd'.symm, ?_, ?_, ?_, ?_⟩ <;> omega

/-! ### the stream-graph readings (definitional equalities) -/

theorem c17_hasNodeFlat_of_mem (g : Graph) {n : Node} (h : n ∈ g.nodeList) : g.hasNodeFlat n = true := by
  unfold Graph.nodeList at h
  unfold Graph.hasNodeFlat
  rw [List.mem_map] at h
  obtain ⟨p, hp, rfl⟩ := h
  rw [List.any_eq_true]
  exact ⟨p, hp, by simp⟩

/-- coverage = Σ_t |V_t| / (|T| · |V|) -/
theorem C17_coverage_def (g : Graph) :
    g.coverage = (sumNat (g.snapKeys.map (fun t => (g.nodeList.filter (fun n => g.hasNode n (some t))).length)),
                  g.snapKeys.length * g.nodeList.length) := by
  unfold Graph.coverage
  rw [c17_snapKeys_length]
  congr 2
  apply List.map_congr_left
  intro t _
  show (g.nodeList.filter _).length = _
  congr 1
  apply List.filter_congr
  intro n hn
  simp [Graph.hasNode, c17_hasNodeFlat_of_mem g hn]

/-- T_u: the snapshot ids at which `u` is present -/
theorem C17_nodePresence_def (g : Graph) (u : Node) (t : Int) :
    t ∈ g.nodePresence u ↔ t ∈ g.snapKeys ∧ g.hasNode u (some t) = true := by
  unfold Graph.nodePresence; rw [List.mem_filter]

/-- node contribution = |T_u| / |T| -/
theorem C17_nodeContribution_def (g : Graph) (u : Node) :
    g.nodeContribution u = ((g.nodePresence u).length, g.snapKeys.length) := by
  unfold Graph.nodeContribution Graph.nodePresence
  rw [c17_snapKeys_length, c17_sum_b2n]

/-- pair density = |T_uv| / |T_u ∩ T_v| -/
theorem C17_pairDensity_def (g : Graph) (u v : Node) :
    g.pairDensity u v =
      ((g.snapKeys.filter (fun t => g.hasInteraction u v (some t))).length,
       (g.snapKeys.filter (fun t => g.hasNode u (some t) && g.hasNode v (some t))).length) := by
  unfold Graph.pairDensity
  rw [c17_sum_b2n, c17_sum_b2n]

/-- density = Σ_{uv} |T_uv| / Σ_{uv} |T_u ∩ T_v| over the unordered pairs of nodes -/
theorem C17_tdensity_def (g : Graph) :
    g.tdensity = (sumNat ((pairsOf g.nodeList).map (fun p => (g.pairDensity p.1 p.2).1)),
                  sumNat ((pairsOf g.nodeList).map (fun p => (g.pairDensity p.1 p.2).2))) := rfl

theorem c17_presence_inter (g : Graph) (u v : Node) :
    (g.nodePresence u).filter (fun t => (g.nodePresence v).contains t)
      = g.snapKeys.filter (fun t => g.hasNode u (some t) && g.hasNode v (some t)) := by
  unfold Graph.nodePresence
  rw [List.filter_filter]
  apply List.filter_congr
  intro t ht
  simp only [List.contains_eq_mem, List.mem_filter, ht, true_and]
  cases g.hasNode u (some t) <;> cases g.hasNode v (some t) <;> simp

theorem c17_filter_or_length {α : Type} (l : List α) (p q : α → Bool) :
    (l.filter p).length + (l.filter (fun x => q x && !p x)).length = (l.filter (fun x => p x || q x)).length := by
  induction l with
  | nil => rfl
  | cons x xs ih =>
    simp only [List.filter_cons]
    cases p x <;> cases q x <;> simp <;> omega

theorem c17_presence_union (g : Graph) (u v : Node) :
    (g.nodePresence u ++ (g.nodePresence v).filter (fun t => !(g.nodePresence u).contains t)).length
      = (g.snapKeys.filter (fun t => g.hasNode u (some t) || g.hasNode v (some t))).length := by
  rw [List.length_append, ← c17_filter_or_length]
  congr 2
  unfold Graph.nodePresence
  rw [List.filter_filter]
  apply List.filter_congr
  intro t ht
  simp only [List.contains_eq_mem, List.mem_filter, ht, true_and]
  cases g.hasNode u (some t) <;> cases g.hasNode v (some t) <;> simp

/-- `node_pair_uniformity(u, v)` = |T_u ∩ T_v| / |T_u ∪ T_v| counted over the snapshot ids -/
theorem C17_nodePairUniformity_def (g : Graph) (u v : Node) :
    g.nodePairUniformity u v =
      ((g.snapKeys.filter (fun t => g.hasNode u (some t) && g.hasNode v (some t))).length,
       (g.snapKeys.filter (fun t => g.hasNode u (some t) || g.hasNode v (some t))).length) := by
  unfold Graph.nodePairUniformity
  simp only []
  rw [c17_presence_inter, c17_presence_union]

/-- uniformity = Σ_{uv} |T_u ∩ T_v| / Σ_{uv} |T_u ∪ T_v| -/
theorem C17_uniformity_def (g : Graph) :
    g.uniformity = (sumNat ((pairsOf g.nodeList).map (fun p => (g.nodePairUniformity p.1 p.2).1)),
                    sumNat ((pairsOf g.nodeList).map (fun p => (g.nodePairUniformity p.1 p.2).2))) := by
  unfold Graph.uniformity
  simp only []
  congr 2
  · apply List.map_congr_left
    rintro ⟨a, b⟩ _
    rw [C17_nodePairUniformity_def]
    exact c17_sum_b2n _ _
  · apply List.map_congr_left
    rintro ⟨a, b⟩ _
    rw [C17_nodePairUniformity_def]
    exact c17_sum_b2n _ _

/-! ### the repository's test graph -/

def c17_testGraph : Graph :=
  let g := Graph.empty false true
  let g := (g.addInteraction 0 1 (some 0) none).1
  let g := (g.addInteraction 0 2 (some 0) none).1
  let g := (g.addInteraction 0 1 (some 1) none).1
  let g := (g.addInteraction 0 2 (some 2) none).1
  (g.addInteraction 0 3 (some 2) none).1

example : c17_testGraph.coverage = (8, 12) := by decide
example : c17_testGraph.nodeContribution 1 = (2, 3) := by decide

/-- the hypothesis `hn` of `C17_pairDensity_le` / `C17_tdensity_le` cannot be dropped for an arbitrary
    `Graph` value: a stored pair whose endpoints are not in `nodes` gives 1/0 -/
example : ({ Graph.empty false true with edges := [⟨0, 1, [(0, 0)]⟩], snaps := [(0, 2)] } : Graph).pairDensity 0 1
    = (1, 0) := by decide

end Dynetx
