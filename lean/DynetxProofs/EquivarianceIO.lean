import DynetxProofs.EquivarianceHistory
/-
  Equivariance, continued: conversions (`to_directed`, `to_undirected`) and the row-level readers / writers
  (`generate_snapshots`, `parse_snapshots`, `generate_interactions`, `parse_interactions`, node-link data).
-/
namespace Dynetx

section
variable {ρ : Node → Node} (hρ : Function.Injective ρ)
include hρ

theorem rn_genSnapshots (g : Graph) :
    (g.rename ρ).genSnapshots = g.genSnapshots.map (fun r => (ρ r.1, ρ r.2.1, r.2.2)) := by
  unfold Graph.genSnapshots
  simp only
  rw [rn_sliceData hρ g]
  simp only [List.flatMap_map, List.map_flatMap, List.map_map]
  apply congrArg (fun f => List.flatMap f _)
  funext x
  obtain ⟨u, v, tl⟩ := x
  rfl

/-- **`parse_snapshots` is equivariant** -/
theorem rn_parseSnapshots (d : Bool) (rows : List (Node × Node × Int × Option Int)) :
    parseSnapshots d (rnCalls ρ rows) = (((parseSnapshots d rows).1).rename ρ, (parseSnapshots d rows).2) := by
  unfold parseSnapshots
  have := rn_addMany hρ rows (Graph.empty d true)
  rwa [rn_empty] at this

theorem rn_replayRow (g : Graph) (r : Ev) :
    (g.rename ρ).replayRow (r.rename ρ) = (((g.replayRow r).1).rename ρ, (g.replayRow r).2) := by
  obtain ⟨t, u, v, plus⟩ := r
  cases plus
  · simp only [Graph.replayRow, Ev.rename, Bool.false_eq_true, if_false]
    rw [rn_findEdge hρ]
    cases g.findEdge u v with
    | none => rfl
    | some ed =>
      simp only [Option.map_some, Edge.rename]
      cases ed.tl with
      | nil => rfl
      | cons ab rest =>
        obtain ⟨a, b⟩ := ab
        simp only
        by_cases hb : b < t
        · simp only [if_pos hb]
          exact (if_pos hb).trans (rn_addInteraction hρ g u v (some b) (some t))
        · simp only [if_neg hb]
          exact if_neg hb
  · simp only [Graph.replayRow, Ev.rename, if_true]
    exact rn_addInteraction hρ g u v (some t) none

theorem rn_replayRows (rows : List Ev) : ∀ g : Graph,
    (g.rename ρ).replayRows (rows.map (Ev.rename ρ)) = (((g.replayRows rows).1).rename ρ, (g.replayRows rows).2) := by
  induction rows with
  | nil => intro g; rfl
  | cons r rest ih =>
    intro g
    simp only [List.map_cons, Graph.replayRows]
    rw [rn_replayRow hρ]
    cases h : g.replayRow r with
    | mk g' err =>
      cases err with
      | none => exact ih g'
      | some e => rfl

/-- **`parse_interactions` is equivariant** -/
theorem rn_parseInteractions (d : Bool) (rows : List Ev) :
    parseInteractions d (rows.map (Ev.rename ρ)) =
      (((parseInteractions d rows).1).rename ρ, (parseInteractions d rows).2) := by
  unfold parseInteractions
  have := rn_replayRows hρ rows (Graph.empty d true)
  rwa [rn_empty] at this

/-- **`to_directed` is equivariant** -/
theorem rn_toDirected (g : Graph) : (g.rename ρ).toDirected = (g.toDirected).map (Graph.rename ρ) := by
  unfold Graph.toDirected
  simp only
  rw [rn_interactionsData hρ]
  have hcalls : (g.interactionsData.map (fun d => (ρ d.1, ρ d.2.1, d.2.2))).flatMap
        (fun (x : Node × Node × List Span) => x.2.2.map (fun (s : Span) => (x.1, x.2.1, s.1, some (s.2 + 1)))) =
      rnCalls ρ (g.interactionsData.flatMap
        (fun (x : Node × Node × List Span) => x.2.2.map (fun (s : Span) => (x.1, x.2.1, s.1, some (s.2 + 1))))) := by
    simp only [rnCalls, List.flatMap_map, List.map_flatMap, List.map_map]
    rfl
  have hflat : ∀ (l : List (Node × Node × List Span)),
      l.flatMap (fun x => match x with | (u, v, tl) => tl.map (fun x => match x with | (a, b) => (u, v, a, some (b + 1)))) =
      l.flatMap (fun (x : Node × Node × List Span) => x.2.2.map (fun (s : Span) => (x.1, x.2.1, s.1, some (s.2 + 1)))) :=
    fun _ => rfl
  rw [hflat, hflat, hcalls]
  have h0 : ({ Graph.empty true true with nodes := (g.rename ρ).nodes.map (fun (p : Node × Nat) => (p.1, 0)) } : Graph) =
      ({ Graph.empty true true with nodes := g.nodes.map (fun (p : Node × Nat) => (p.1, 0)) } : Graph).rename ρ := by
    simp [Graph.rename, Graph.empty, List.map_map, Function.comp_def]
  rw [h0, rn_addMany hρ]
  cases h : ({ Graph.empty true true with nodes := g.nodes.map (fun (p : Node × Nat) => (p.1, 0)) } : Graph).addMany
      (g.interactionsData.flatMap
        (fun (x : Node × Node × List Span) => x.2.2.map (fun (s : Span) => (x.1, x.2.1, s.1, some (s.2 + 1))))) with
  | mk h' err =>
    cases err with
    | some e => rfl
    | none => rfl

omit hρ in
theorem rn_nodeLink_nodes (g : Graph) : (g.rename ρ).nodeLinkData.nodes = g.nodes.map (fun p => (ρ p.1, p.2)) := rfl

/-- `node_link_data` is equivariant (directed flag and graph attributes untouched, nodes and links renamed) -/
theorem rn_nodeLinkData (g : Graph) :
    (g.rename ρ).nodeLinkData =
      { directed := some g.directed, gattr := g.gattr, nodes := g.nodes.map (fun p => (ρ p.1, p.2)),
        links := g.genSnapshots.map (fun r => (ρ r.1, ρ r.2.1, r.2.2)) } := by
  unfold Graph.nodeLinkData
  rw [rn_genSnapshots hρ]
  rfl

end
end Dynetx

namespace Dynetx

section
variable {ρ : Node → Node} (hρ : Function.Injective ρ)
include hρ

def rnMerged (ρ : Node → Node) (m : List (Node × Node × List Int)) : List (Node × Node × List Int) :=
  m.map (fun x => (ρ x.1, ρ x.2.1, x.2.2))

theorem rn_mergedGo (g : Graph) (recip : Bool) (l : List (Node × Node × List Span)) :
    ∀ acc, mergedGo (g.rename ρ) recip (l.map (fun x => (ρ x.1, ρ x.2.1, x.2.2))) (rnMerged ρ acc) =
      rnMerged ρ (mergedGo g recip l acc) := by
  induction l with
  | nil => intro acc; rfl
  | cons x rest ih =>
    intro acc
    obtain ⟨u, v, tl⟩ := x
    simp only [List.map_cons, mergedGo]
    have hany : (rnMerged ρ acc).any (fun x => match x with | (a, b, _) => a == ρ v && b == ρ u) =
        acc.any (fun x => match x with | (a, b, _) => a == v && b == u) := by
      simp only [rnMerged, List.any_map, Function.comp_def, rn_beq hρ]
    rw [hany]
    split
    · exact ih acc
    · rw [rn_timeline hρ]
      have := ih (acc ++ [(u, v, sortedSet (if recip = true then List.filter (fun x => (instants ((g.timeline v u).getD [])).contains x) (instants tl)
          else instants tl ++ instants ((g.timeline v u).getD [])))])
      simp only [rnMerged, List.map_append, List.map_cons, List.map_nil] at this ⊢
      exact this

/-- **`to_undirected` is equivariant** -/
theorem rn_toUndirected (g : Graph) (recip : Bool) :
    (g.rename ρ).toUndirected recip = (g.toUndirected recip).map (Graph.rename ρ) := by
  unfold Graph.toUndirected
  simp only
  rw [rn_outInteractionsData hρ]
  have hm := rn_mergedGo hρ g recip g.outInteractionsData []
  simp only [rnMerged, List.map_nil] at hm
  rw [hm]
  have hcalls : ((mergedGo g recip g.outInteractionsData []).map (fun x => (ρ x.1, ρ x.2.1, x.2.2))).flatMap
        (fun (x : Node × Node × List Int) => (runsOf x.2.2).map (fun (s : Int × Int) => (x.1, x.2.1, s.1, some (s.2 + 1)))) =
      rnCalls ρ ((mergedGo g recip g.outInteractionsData []).flatMap
        (fun (x : Node × Node × List Int) => (runsOf x.2.2).map (fun (s : Int × Int) => (x.1, x.2.1, s.1, some (s.2 + 1))))) := by
    simp only [rnCalls, List.flatMap_map, List.map_flatMap, List.map_map]
    rfl
  have hflat : ∀ (l : List (Node × Node × List Int)),
      l.flatMap (fun x => match x with | (u, v, s) => (runsOf s).map (fun x => match x with | (a, b) => (u, v, a, some (b + 1)))) =
      l.flatMap (fun (x : Node × Node × List Int) => (runsOf x.2.2).map (fun (s : Int × Int) => (x.1, x.2.1, s.1, some (s.2 + 1)))) :=
    fun _ => rfl
  rw [hflat, hflat, hcalls]
  have h0 : ({ Graph.empty false true with nodes := (g.rename ρ).nodes.map (fun (p : Node × Nat) => (p.1, 0)) } : Graph) =
      ({ Graph.empty false true with nodes := g.nodes.map (fun (p : Node × Nat) => (p.1, 0)) } : Graph).rename ρ := by
    simp [Graph.rename, Graph.empty, List.map_map, Function.comp_def]
  rw [h0, rn_addMany hρ]
  cases h : ({ Graph.empty false true with nodes := g.nodes.map (fun (p : Node × Nat) => (p.1, 0)) } : Graph).addMany
      ((mergedGo g recip g.outInteractionsData []).flatMap
        (fun (x : Node × Node × List Int) => (runsOf x.2.2).map (fun (s : Int × Int) => (x.1, x.2.1, s.1, some (s.2 + 1))))) with
  | mk h' err =>
    cases err with
    | some e => rfl
    | none => rfl

end
end Dynetx
