import DynetxProofs.Lemmas.AddMany
import DynetxProofs.Lemmas.Snaps
import DynetxProofs.Q1
import DynetxProofs.Q2
/-
  C09: snapshot edge lists at row level (`generate_snapshots` / `parse_snapshots`).
  One row `(u, v, x)` per stored pair and per instant `x` at which it is present; reading the rows back
  rebuilds the presence relation; a four-column row `(u, v, t, e)` is read as the span `t..e-1`.
-/
namespace Dynetx

/-- Q2 carries its own copy of the node invariant -/
theorem c09_q2inv {g : Graph} (hn : NodeInv g) : q2_NodeInv g := ⟨hn.endpoints, hn.nodup⟩

/-! ### instants of an (ascending) timeline -/

theorem c09_mem_instants (tl : List Span) (x : Int) : x ∈ instants tl ↔ memTl tl x := by
  unfold instants memTl
  simp only [List.mem_flatMap, mem_irange]

theorem c09_irange_sorted (lo hi : Int) : (irange lo hi).Pairwise (· < ·) := by
  unfold irange
  rw [List.pairwise_map]
  refine List.Pairwise.imp ?_ (List.pairwise_lt_range (n := (hi + 1 - lo).toNat))
  intro a b hab
  show lo + Int.ofNat a < lo + Int.ofNat b
  have : (Int.ofNat a) < Int.ofNat b := Int.ofNat_lt.mpr hab
  omega

theorem c09_canonAsc_tail {s : Span} {tl : List Span} (h : CanonAsc (s :: tl)) : CanonAsc tl := by
  cases tl with
  | nil => trivial
  | cons r rest => exact h.2.2

theorem c09_canonAsc_head_le {s : Span} {tl : List Span} (h : CanonAsc (s :: tl)) : s.1 ≤ s.2 := by
  cases tl with
  | nil => exact h
  | cons r rest => exact h.1

/-- everything after the head of an ascending canonical timeline starts after the head's end -/
theorem c09_canonAsc_above {s : Span} {tl : List Span} (h : CanonAsc (s :: tl)) :
    ∀ r ∈ tl, s.2 + 1 < r.1 := by
  induction tl generalizing s with
  | nil => intro r hr; cases hr
  | cons q rest ih =>
    intro r hr
    have hq : s.2 + 1 < q.1 := h.2.1
    rcases List.mem_cons.mp hr with rfl | hr'
    · exact hq
    · have := ih h.2.2 r hr'
      have hq' := c09_canonAsc_head_le h.2.2
      omega

/-- the instants of a canonical timeline (oldest run first) come out strictly ascending -/
theorem c09_instants_sorted {tl : List Span} (h : CanonAsc tl) : (instants tl).Pairwise (· < ·) := by
  induction tl with
  | nil => simp [instants]
  | cons s rest ih =>
    have hcons : instants (s :: rest) = irange s.1 s.2 ++ instants rest := by
      simp [instants]
    rw [hcons, List.pairwise_append]
    refine ⟨c09_irange_sorted _ _, ih (c09_canonAsc_tail h), ?_⟩
    intro x hx y hy
    rw [mem_irange] at hx
    rw [c09_mem_instants] at hy
    obtain ⟨r, hr, hry⟩ := hy
    have := c09_canonAsc_above h r hr
    omega

/-! ### rows of a data list -/

/-- the rows written for a data list `(u, v, timeline)` -/
def c09_rowsOf (d : List (Node × Node × List Span)) : List (Node × Node × Int) :=
  d.flatMap (fun p => (instants p.2.2).map (fun s => (p.1, p.2.1, s)))

/-- the pairs `generate_snapshots` iterates over -/
def c09_pairs (g : Graph) : List (Node × Node) :=
  if g.directed then g.outInteractions none none else g.interactions none none

def c09_entry (g : Graph) (p : Node × Node) : Node × Node × List Span :=
  (p.1, p.2, (g.timeline p.1 p.2).getD [])

theorem c09_genSnapshots_eq (g : Graph) :
    g.genSnapshots = c09_rowsOf ((c09_pairs g).map (c09_entry g)) := by
  have hdata : (if g.directed then g.outInteractionsData else g.interactionsData)
      = (c09_pairs g).map (c09_entry g) := by
    unfold c09_pairs Graph.outInteractionsData Graph.interactionsData
    split <;> rfl
  unfold Graph.genSnapshots c09_rowsOf
  simp only [hdata]
  congr 1
  funext p
  obtain ⟨u, v, tl⟩ := p
  simp only [instants, List.map_flatMap]

theorem c09_mem_rowsOf (d : List (Node × Node × List Span)) (u v : Node) (x : Int) :
    (u, v, x) ∈ c09_rowsOf d ↔ ∃ tl, (u, v, tl) ∈ d ∧ memTl tl x := by
  unfold c09_rowsOf
  simp only [List.mem_flatMap, List.mem_map, c09_mem_instants, Prod.mk.injEq]
  constructor
  · rintro ⟨⟨a, b, tl⟩, hp, s, hs, rfl, rfl, rfl⟩
    exact ⟨tl, hp, hs⟩
  · rintro ⟨tl, hp, hs⟩
    exact ⟨(u, v, tl), hp, x, hs, rfl, rfl, rfl⟩

/-- generic "one row per key and instant", in the strong form "ascending per key" -/
theorem c09_rowsOf_pairwise (K : Node → Node → Node → Node → Prop) (d : List (Node × Node × List Span))
    (hd : d.Pairwise (fun p q => ¬ K p.1 p.2.1 q.1 q.2.1)) (htl : ∀ p ∈ d, CanonAsc p.2.2) :
    (c09_rowsOf d).Pairwise (fun r s => K r.1 r.2.1 s.1 s.2.1 → r.2.2 < s.2.2) := by
  unfold c09_rowsOf
  rw [List.pairwise_flatMap]
  constructor
  · intro p hp
    rw [List.pairwise_map]
    refine List.Pairwise.imp ?_ (c09_instants_sorted (htl p hp))
    intro a b hab _
    exact hab
  · refine hd.imp ?_
    intro p q hpq x hx y hy hk
    obtain ⟨s, _, rfl⟩ := List.mem_map.mp hx
    obtain ⟨s', _, rfl⟩ := List.mem_map.mp hy
    exact absurd hk hpq

/-! ### the timeline of a pair versus presence -/

theorem c09_memTl_timeline {g : Graph} (h : WF g) (hr : g.removal = true) (u v : Node) (x : Int) :
    memTl ((g.timeline u v).getD []) x ↔ g.hasInteraction u v (some x) = true := by
  unfold Graph.timeline Graph.hasInteraction
  cases hf : g.findEdge u v with
  | none => simp [memTl_nil]
  | some e =>
    simp only [Option.map_some, Option.getD_some]
    rw [memTl_reverse, presenceTest_iff g hr e.tl (h.tl e (findEdge_some hf).1).2 x]

theorem c09_timeline_canonAsc {g : Graph} (h : WF g) (u v : Node) :
    CanonAsc ((g.timeline u v).getD []) := by
  unfold Graph.timeline
  cases hf : g.findEdge u v with
  | none => simp [CanonAsc]
  | some e =>
    simp only [Option.map_some, Option.getD_some]
    exact (h.tl e (findEdge_some hf).1).2.reverse

/-- presence does not depend on which name of the key is used -/
theorem c09_has_key {g : Graph} (h : WF g) (hr : g.removal = true) {u v a b : Node} {x : Int}
    (hk : sameKey g.directed u v a b = true) (hh : g.hasInteraction u v (some x) = true) :
    g.hasInteraction a b (some x) = true := by
  rw [h.hasInteraction_iff hr] at hh ⊢
  obtain ⟨e, hem, hek, hm⟩ := hh
  exact ⟨e, hem, sameKey_trans hek hk, hm⟩

/-! ### rows of a graph -/

section rows
variable {g : Graph} (h : WF g) (hr : g.removal = true) (hn : NodeInv g)
include h hr

/-- a row is written for `(u, v, x)` iff the iteration yields `(u, v)` and the pair is present at `x` -/
theorem c09_mem_rows (u v : Node) (x : Int) :
    (u, v, x) ∈ g.genSnapshots ↔ ((u, v) ∈ c09_pairs g ∧ g.hasInteraction u v (some x) = true) := by
  rw [c09_genSnapshots_eq, c09_mem_rowsOf]
  constructor
  · rintro ⟨tl, hp, hm⟩
    obtain ⟨p, hpm, heq⟩ := List.mem_map.mp hp
    obtain ⟨a, b⟩ := p
    simp only [c09_entry, Prod.mk.injEq] at heq
    obtain ⟨rfl, rfl, rfl⟩ := heq
    exact ⟨hpm, (c09_memTl_timeline h hr _ _ x).mp hm⟩
  · rintro ⟨hp, hh⟩
    exact ⟨(g.timeline u v).getD [], List.mem_map.mpr ⟨(u, v), hp, rfl⟩,
      (c09_memTl_timeline h hr u v x).mpr hh⟩

/-- every row is a present interaction (both classes) -/
theorem c09_row_present {r : Node × Node × Int} (hm : r ∈ g.genSnapshots) :
    g.hasInteraction r.1 r.2.1 (some r.2.2) = true := by
  obtain ⟨u, v, x⟩ := r
  exact ((c09_mem_rows h hr u v x).mp hm).2

include hn

omit hr in
theorem c09_pairs_once :
    (c09_pairs g).Pairwise (fun p q => ¬ (sameKey g.directed p.1 p.2 q.1 q.2 = true)) := by
  unfold c09_pairs
  cases hd : g.directed with
  | true =>
    simp only [if_true]
    refine (C02_outInteractions_nodup h (c09_q2inv hn) none).imp ?_
    intro p q hne hk
    rw [sameKey_directed_iff] at hk
    exact hne (Prod.ext hk.1 hk.2)
  | false =>
    simp only [Bool.false_eq_true, if_false]
    exact C02_interactions_once h (c09_q2inv hn) none

omit hr in
/-- per key the rows come out in strictly ascending instant order -/
theorem c09_rows_sorted :
    g.genSnapshots.Pairwise
      (fun r s => sameKey g.directed r.1 r.2.1 s.1 s.2.1 = true → r.2.2 < s.2.2) := by
  rw [c09_genSnapshots_eq]
  apply c09_rowsOf_pairwise (fun u v a b => sameKey g.directed u v a b = true)
  · rw [List.pairwise_map]
    exact c09_pairs_once h hn
  · intro p hp
    obtain ⟨q, _, rfl⟩ := List.mem_map.mp hp
    exact c09_timeline_canonAsc h _ _

/-- completeness up to the key: a present interaction has a row under one of its names -/
theorem c09_rows_complete {a b : Node} {x : Int} (hh : g.hasInteraction a b (some x) = true) :
    ∃ r ∈ g.genSnapshots, sameKey g.directed r.1 r.2.1 a b = true ∧ r.2.2 = x := by
  have hflat := q1_has_some_flat g a b _ hh
  cases hd : g.directed with
  | true =>
    refine ⟨(a, b, x), (c09_mem_rows h hr a b x).mpr ⟨?_, hh⟩, sameKey_refl _ _ _, rfl⟩
    unfold c09_pairs
    simp only [hd, if_true]
    exact (C02_outInteractions_directed (c09_q2inv hn) none a b).mpr hflat
  | false =>
    have hp : (a, b) ∈ c09_pairs g ∨ (b, a) ∈ c09_pairs g := by
      unfold c09_pairs
      simp only [hd, Bool.false_eq_true, if_false]
      exact C02_interactions_complete (c09_q2inv hn) hd none a b hflat
    rcases hp with hp | hp
    · exact ⟨(a, b, x), (c09_mem_rows h hr a b x).mpr ⟨hp, hh⟩, sameKey_refl _ _ _, rfl⟩
    · refine ⟨(b, a, x), (c09_mem_rows h hr b a x).mpr ⟨hp, ?_⟩, ?_, rfl⟩
      · rw [q1_has_symm g hd]; exact hh
      · simp [sameKey]

/-! ### 1. directed graphs -/

/-- exactly one row per interaction and per instant at which it is present, orientation preserved -/
theorem C09_rows_directed (hd : g.directed = true) :
    (∀ u v x, (u, v, x) ∈ g.genSnapshots ↔ g.hasInteraction u v (some x) = true) ∧
    g.genSnapshots.Nodup := by
  constructor
  · intro u v x
    rw [c09_mem_rows h hr]
    constructor
    · exact fun hh => hh.2
    · intro hh
      refine ⟨?_, hh⟩
      unfold c09_pairs
      simp only [hd, if_true]
      exact (C02_outInteractions_directed (c09_q2inv hn) none u v).mpr (q1_has_some_flat g u v _ hh)
  · refine (c09_rows_sorted h hn).imp ?_
    intro r s hrs heq
    subst heq
    have := hrs (sameKey_refl _ _ _)
    omega

/-! ### 2. undirected graphs -/

/-- one row per unordered pair and instant, under one of the two orientations -/
theorem C09_rows_undirected (hd : g.directed = false) :
    (∀ u v x, ((u, v, x) ∈ g.genSnapshots ∨ (v, u, x) ∈ g.genSnapshots) ↔
        g.hasInteraction u v (some x) = true) ∧
    g.genSnapshots.Pairwise
      (fun r s => ¬ (sameKey false r.1 r.2.1 s.1 s.2.1 = true ∧ r.2.2 = s.2.2)) := by
  constructor
  · intro u v x
    constructor
    · rintro (hm | hm)
      · exact c09_row_present h hr hm
      · have := c09_row_present h hr hm
        rw [q1_has_symm g hd]; exact this
    · intro hh
      obtain ⟨⟨a, b, y⟩, hm, hk, hy⟩ := c09_rows_complete h hr hn hh
      simp only at hk hy
      subst hy
      rw [hd, q1_key_iff] at hk
      rcases hk with ⟨rfl, rfl⟩ | ⟨_, rfl, rfl⟩
      · exact Or.inl hm
      · exact Or.inr hm
  · have hs := c09_rows_sorted h hn
    rw [hd] at hs
    refine hs.imp ?_
    intro r s hrs hc
    have := hrs hc.1
    omega

/-! ### 3. round trip -/

/-- reading the rows back into any fresh graph of the same class (nodes may be in place already) -/
theorem c09_roundtrip_gen (g1 : Graph) (he : g1.edges = []) (hr1 : g1.removal = true)
    (hd1 : g1.directed = g.directed) :
    (g1.addMany (g.genSnapshots.map (fun r => (r.1, r.2.1, r.2.2, none)))).2 = none ∧
    WF (g1.addMany (g.genSnapshots.map (fun r => (r.1, r.2.1, r.2.2, none)))).1 ∧
    (g1.addMany (g.genSnapshots.map (fun r => (r.1, r.2.1, r.2.2, none)))).1.directed = g.directed ∧
    ∀ u v x, (g1.addMany (g.genSnapshots.map (fun r => (r.1, r.2.1, r.2.2, none)))).1.hasInteraction
        u v (some x) = g.hasInteraction u v (some x) := by
  have hsorted : CallsSorted g1.directed (g.genSnapshots.map (fun r => (r.1, r.2.1, r.2.2, none))) := by
    unfold CallsSorted
    rw [List.pairwise_map, hd1]
    exact (c09_rows_sorted h hn).imp (fun hlt hk => Int.le_of_lt (hlt hk))
  obtain ⟨h1, h2, _, h4, h5⟩ := addMany_fresh g1 he hr1 _ hsorted
  refine ⟨h1, h2, by rw [h4, hd1], ?_⟩
  intro u v x
  rw [Bool.eq_iff_iff, h5, hd1]
  unfold inCalls
  constructor
  · rintro ⟨c, hc, hk, t1, hsp, hx1, hx2⟩
    obtain ⟨r, hrm, rfl⟩ := List.mem_map.mp hc
    simp only [spanEnd, Option.some.injEq] at hsp hk hx1 hx2
    subst hsp
    have hx : r.2.2 = x := by omega
    have := c09_row_present h hr hrm
    rw [hx] at this
    exact c09_has_key h hr hk this
  · intro hh
    obtain ⟨r, hrm, hk, hx⟩ := c09_rows_complete h hr hn hh
    refine ⟨(r.1, r.2.1, r.2.2, none), List.mem_map.mpr ⟨r, hrm, rfl⟩, hk, r.2.2, rfl, ?_, ?_⟩
    · show r.2.2 ≤ x; omega
    · show x ≤ r.2.2; omega

/-- `parse_snapshots` of the rows `generate_snapshots` wrote gives the same presence relation -/
theorem C09_roundtrip :
    ∃ H, parseSnapshots g.directed (g.genSnapshots.map (fun r => (r.1, r.2.1, r.2.2, none))) = (H, none) ∧
      WF H ∧ H.directed = g.directed ∧
      ∀ u v x, H.hasInteraction u v (some x) = g.hasInteraction u v (some x) := by
  obtain ⟨h1, h2, h3, h4⟩ := c09_roundtrip_gen h hr hn (Graph.empty g.directed true) rfl rfl rfl
  exact ⟨_, Prod.ext rfl h1, h2, h3, h4⟩

end rows

/-! ### 4. four-column rows -/

theorem c09_addMany_single (g : Graph) (u v : Node) (t : Int) (e : Option Int) :
    g.addMany [(u, v, t, e)] = g.addInteraction u v (some t) e := by
  rcases hres : g.addInteraction u v (some t) e with ⟨g', o⟩
  cases o <;> simp [Graph.addMany, hres]

/-- a row `u v t e` is one `add_interaction(u, v, t, e)`; for `t < e` it is read as the span `t..e-1` -/
theorem C09_four_columns (d : Bool) (u v : Node) (t e : Int) :
    parseSnapshots d [(u, v, t, some e)] = (Graph.empty d true).addInteraction u v (some t) (some e) ∧
    (t < e →
      (parseSnapshots d [(u, v, t, some e)]).2 = none ∧ WF (parseSnapshots d [(u, v, t, some e)]).1 ∧
      ∀ a b x, (parseSnapshots d [(u, v, t, some e)]).1.hasInteraction a b (some x) = true ↔
        (sameKey d u v a b = true ∧ t ≤ x ∧ x < e)) := by
  refine ⟨c09_addMany_single _ _ _ _ _, ?_⟩
  intro hte
  have hsorted : CallsSorted (Graph.empty d true).directed [(u, v, t, some e)] := List.pairwise_singleton _ _
  obtain ⟨h1, h2, _, _, h5⟩ := addMany_fresh (Graph.empty d true) rfl rfl _ hsorted
  refine ⟨h1, h2, ?_⟩
  intro a b x
  unfold parseSnapshots
  rw [h5]
  unfold inCalls
  have hsp : spanEnd t (some e) = some (e - 1) := by
    show (if e ≤ t then none else some (e - 1)) = some (e - 1)
    rw [if_neg (by omega : ¬ e ≤ t)]
  constructor
  · rintro ⟨c, hc, hk, t1, hs, hx1, hx2⟩
    rw [List.mem_singleton] at hc
    subst hc
    simp only at hk hs hx1 hx2
    rw [hsp] at hs
    cases hs
    exact ⟨hk, hx1, by omega⟩
  · rintro ⟨hk, hx1, hx2⟩
    exact ⟨(u, v, t, some e), List.mem_singleton.mpr rfl, hk, e - 1, hsp, hx1, by omega⟩

/-! ### 5. histories -/

/-- for the graph reached by any history of the add family (removal mode) -/
theorem C09_history (d : Bool) (ops : List Op) :
    (d = true →
      (∀ u v x, (u, v, x) ∈ ((Graph.empty d true).run ops).1.genSnapshots ↔
        ((Graph.empty d true).run ops).1.hasInteraction u v (some x) = true) ∧
      ((Graph.empty d true).run ops).1.genSnapshots.Nodup) ∧
    (d = false →
      (∀ u v x, ((u, v, x) ∈ ((Graph.empty d true).run ops).1.genSnapshots ∨
          (v, u, x) ∈ ((Graph.empty d true).run ops).1.genSnapshots) ↔
        ((Graph.empty d true).run ops).1.hasInteraction u v (some x) = true) ∧
      ((Graph.empty d true).run ops).1.genSnapshots.Pairwise
        (fun r s => ¬ (sameKey false r.1 r.2.1 s.1 s.2.1 = true ∧ r.2.2 = s.2.2))) ∧
    ∃ H, parseSnapshots d (((Graph.empty d true).run ops).1.genSnapshots.map
          (fun r => (r.1, r.2.1, r.2.2, none))) = (H, none) ∧
      WF H ∧ H.directed = d ∧
      ∀ u v x, H.hasInteraction u v (some x) =
        ((Graph.empty d true).run ops).1.hasInteraction u v (some x) := by
  have r := run_ok (Graph.empty d true) (WF.empty _ _) rfl ops
  have hn := run_nodeInv (Graph.empty d true) (NodeInv.empty _ _) ops
  have hd : ((Graph.empty d true).run ops).1.directed = d := r.directed
  refine ⟨fun hdt => C09_rows_directed r.wf r.removal hn (by rw [hd, hdt]),
    fun hdf => C09_rows_undirected r.wf r.removal hn (by rw [hd, hdf]), ?_⟩
  have := C09_roundtrip r.wf r.removal hn
  rw [hd] at this
  exact this

/-- in terms of the calls of the history: the graph read back is present at `x` iff an accepted span of
    the history covers `x` -/
theorem C09_history_log (d : Bool) (ops : List Op) :
    ∃ H, parseSnapshots d (((Graph.empty d true).run ops).1.genSnapshots.map
          (fun r => (r.1, r.2.1, r.2.2, none))) = (H, none) ∧
      ∀ u v x, H.hasInteraction u v (some x) = true ↔
        inLog d ((Graph.empty d true).runLog ops) u v x := by
  obtain ⟨H, h1, _, _, h4⟩ := (C09_history d ops).2.2
  refine ⟨H, h1, ?_⟩
  intro u v x
  have r := run_ok (Graph.empty d true) (WF.empty _ _) rfl ops
  rw [h4, r.presence, empty_hasInteraction]
  simp [Graph.empty]

/-! ### non-vacuity -/

/-- 1–2 present on [2,3], node 7 isolated with attribute 4 -/
def c09_demo : Graph :=
  ((((Graph.empty false true).addInteraction 1 2 (some 2) (some 4)).1.addNode 7).setAttr 7 4)

example : c09_demo.genSnapshots = [(1, 2, 2), (1, 2, 3)] := by decide

example : (parseSnapshots false (c09_demo.genSnapshots.map (fun r => (r.1, r.2.1, r.2.2, none)))).2 = none ∧
    (parseSnapshots false (c09_demo.genSnapshots.map (fun r => (r.1, r.2.1, r.2.2, none)))).1.edges
      = c09_demo.edges := by decide

/-- two runs of one pair: rows ascending across the runs; directed orientation kept -/
example :
    ((((Graph.empty true true).addInteraction 2 1 (some 1) none).1.addInteraction 2 1 (some 5) (some 7)).1
      ).genSnapshots = [(2, 1, 1), (2, 1, 5), (2, 1, 6)] := by decide

/-- a four-column row -/
example : (parseSnapshots false [(1, 2, 2, some 4)]).1.hasInteraction 2 1 (some 3) = true ∧
    (parseSnapshots false [(1, 2, 2, some 4)]).1.hasInteraction 2 1 (some 4) = false := by decide

end Dynetx
