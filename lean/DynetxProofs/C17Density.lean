import DynetxProofs.C17
import DynetxProofs.Q1
import DynetxProofs.Q2
import DynetxProofs.C06
import DynetxProofs.WFAll
/-
  C17 (continued): `node_density(u)` and `snapshot_density(t)` lie in [0, 1].

  * `C17_nodeDensity_le`      : undirected, no pair stored twice, endpoints of stored pairs are nodes.
  * `C17_snapshotDensity_le`  : undirected, no stored self-loop (nothing else: the slice is rebuilt from
                                the empty graph, so its own invariants come for free).
  * `C17_density_history`     : both, for every history of add calls none of which names a pair `(n, n)`.
  Each hypothesis is shown to be necessary by a `decide` witness at the end of the file.
-/
namespace Dynetx

/-! ## counting -/

theorem c17d_nodup_subset_length {l m : List Node} (hnd : l.Nodup) (hs : ∀ x ∈ l, x ∈ m) :
    l.length ≤ m.length := by
  induction l generalizing m with
  | nil => simp
  | cons x xs ih =>
    rw [List.nodup_cons] at hnd
    have hx := hs x List.mem_cons_self
    have h1 := ih (m := m.erase x) hnd.2
      (fun y hy => (List.mem_erase_of_ne (by rintro rfl; exact hnd.1 hy)).mpr (hs y (List.mem_cons_of_mem _ hy)))
    rw [List.length_erase_of_mem hx] at h1
    have h2 : 0 < m.length := List.length_pos_of_mem hx
    rw [List.length_cons]; omega

theorem c17d_sum_map_add {α : Type} (l : List α) (f k : α → Nat) :
    sumNat (l.map (fun x => f x + k x)) = sumNat (l.map f) + sumNat (l.map k) := by
  induction l with
  | nil => rfl
  | cons a rest ih => simp only [List.map_cons, c17_sumNat_cons, ih]; omega

theorem c17d_sum_zero {α : Type} (l : List α) : sumNat (l.map (fun _ => 0)) = 0 := by
  induction l with
  | nil => rfl
  | cons a rest ih => simp only [List.map_cons, c17_sumNat_cons, ih]

/-- double counting: Σ_a |{b ∈ B | R a b}| = Σ_b |{a ∈ A | R a b}| -/
theorem c17d_sum_swap {α β : Type} (A : List α) (B : List β) (R : α → β → Bool) :
    sumNat (A.map (fun a => (B.filter (R a)).length))
      = sumNat (B.map (fun b => (A.filter (fun a => R a b)).length)) := by
  induction A with
  | nil => simp only [List.map_nil, List.filter_nil, List.length_nil, c17d_sum_zero]; rfl
  | cons a rest ih =>
    have h1 : (fun b => ((a :: rest).filter (fun a' => R a' b)).length)
        = (fun b => b2n (R a b) + (rest.filter (fun a' => R a' b)).length) := by
      funext b
      rw [List.filter_cons]
      cases R a b <;> simp [b2n]; omega
    rw [List.map_cons, c17_sumNat_cons, ih, h1, c17d_sum_map_add, c17_sum_b2n]

/-! ## 1. node density -/

/-- the denominator of `node_density(u)` summed the other way round: Σ_t [u ∈ V_t] · |V_t| -/
theorem c17d_nodeDensity_den (g : Graph) (u : Node) :
    (g.nodeDensity u).2 =
      sumNat (g.snapKeys.map (fun t =>
        (g.nodeList.filter (fun v => g.hasNode v (some t) && g.hasNode u (some t))).length)) := by
  show sumNat (g.nodeList.map (fun v =>
      ((g.nodePresence v).filter (fun t => (g.nodePresence u).contains t)).length)) = _
  rw [← c17d_sum_swap g.nodeList g.snapKeys (fun v t => g.hasNode v (some t) && g.hasNode u (some t))]
  congr 1
  apply List.map_congr_left
  intro v _
  rw [c17_presence_inter]

/-- at an instant where `u` is present, its degree is at most the number of present nodes -/
theorem c17d_degree_le_present (g : Graph) (hd : g.directed = false) (hk : q1_Keys g)
    (hn : ∀ e ∈ g.edges, g.hasNodeFlat e.u = true ∧ g.hasNodeFlat e.v = true) (u : Node) (t : Int) :
    (if g.hasNode u (some t) then g.degree u (some t) else 0)
      ≤ (g.nodeList.filter (fun v => g.hasNode v (some t) && g.hasNode u (some t))).length := by
  cases hu : g.hasNode u (some t) with
  | false => simp
  | true =>
    simp only [if_true]
    rw [C02_degree_undirected g hd]
    apply c17d_nodup_subset_length ((q1_succs_nodup_of_keys hk u).filter _)
    intro m hm
    have hi := (C02_neighbors g u m (some t)).mp hm
    have hm' := (c17_hasInteraction_hasNode g hn hi).2
    rw [List.mem_filter]
    refine ⟨?_, by simp [hm']⟩
    rw [← q1_hasNodeFlat_iff]
    unfold Graph.hasNode at hm'
    simp only [Bool.and_eq_true] at hm'
    exact hm'.1

/-- `node_density(u)` ≤ 1 on an undirected graph in which no pair is stored twice and the endpoints of
    stored pairs are nodes (any mode, self-loops allowed) -/
theorem C17_nodeDensity_le (g : Graph) (hd : g.directed = false) (hk : q1_Keys g)
    (hn : ∀ e ∈ g.edges, g.hasNodeFlat e.u = true ∧ g.hasNodeFlat e.v = true) (u : Node) :
    (g.nodeDensity u).1 ≤ (g.nodeDensity u).2 := by
  rw [c17d_nodeDensity_den]
  show sumNat (g.snapKeys.map (fun t => if g.hasNode u (some t) then g.degree u (some t) else 0)) ≤ _
  exact c17_sum_le_sum _ _ _ (fun t _ => c17d_degree_le_present g hd hk hn u t)

/-- the same under the invariants as they are bundled elsewhere -/
theorem C17_nodeDensity_le_wf (g : Graph) (hd : g.directed = false) (h : WF g) (hn : NodeInv g) (u : Node) :
    (g.nodeDensity u).1 ≤ (g.nodeDensity u).2 :=
  C17_nodeDensity_le g hd h.keys hn.endpoints u

/-! ## 2. loop-freeness and the graph class along `add_interaction` -/

/-- no stored self-loop -/
def c17d_NoLoop (g : Graph) : Prop := ∀ e ∈ g.edges, e.u ≠ e.v

/-- the endpoints of the stored pairs after one `add_interaction(u, v, ..)`: old ones, or `(u, v)` -/
theorem c17d_addInteraction_edges (g : Graph) (u v : Node) (t e : Option Int) :
    ∀ e' ∈ (g.addInteraction u v t e).1.edges,
      (∃ e0 ∈ g.edges, e0.u = e'.u ∧ e0.v = e'.v) ∨ (e'.u = u ∧ e'.v = v) := by
  have hsame : ∀ e' ∈ g.edges, (∃ e0 ∈ g.edges, e0.u = e'.u ∧ e0.v = e'.v) ∨ (e'.u = u ∧ e'.v = v) :=
    fun e' he' => Or.inl ⟨e', he', rfl, rfl⟩
  unfold Graph.addInteraction
  repeat' split
  all_goals first
    | exact hsame
    | (intro e' he'
       rw [addNew_edges, List.mem_append] at he'
       rcases he' with he' | he'
       · exact Or.inl ⟨e', he', rfl, rfl⟩
       · rw [List.mem_singleton] at he'; subst he'; exact Or.inr ⟨rfl, rfl⟩)
    | (intro e' he'; rw [addCovered_edges] at he'; exact Or.inl ⟨e', he', rfl, rfl⟩)
    | (intro e' he'; rw [addAccum_edges] at he'; exact Or.inl (q1_mapTl_endpoints he'))
    | (intro e' he'; rw [addExtend_edges] at he'; exact Or.inl (q1_mapTl_endpoints he'))
    | (intro e' he'; rw [addAppend_edges] at he'; exact Or.inl (q1_mapTl_endpoints he'))

theorem c17d_addInteraction_directed (g : Graph) (u v : Node) (t e : Option Int) :
    (g.addInteraction u v t e).1.directed = g.directed := by
  unfold Graph.addInteraction
  repeat' split
  all_goals first
    | rfl
    | exact addNew_directed ..
    | exact addCovered_directed ..
    | exact addAccum_directed ..
    | exact addExtend_directed ..
    | exact addAppend_directed ..

theorem c17d_addInteraction_noLoop {g : Graph} (h : c17d_NoLoop g) (u v : Node) (huv : u ≠ v)
    (t e : Option Int) : c17d_NoLoop (g.addInteraction u v t e).1 := by
  intro e' he'
  rcases c17d_addInteraction_edges g u v t e e' he' with ⟨e0, he0, h1, h2⟩ | ⟨h1, h2⟩
  · rw [← h1, ← h2]; exact h e0 he0
  · rw [h1, h2]; exact huv

theorem c17d_addMany_directed (g : Graph) (calls : List Call4) : (g.addMany calls).1.directed = g.directed := by
  induction calls generalizing g with
  | nil => rfl
  | cons c rest ih =>
    obtain ⟨u, v, t0, e⟩ := c
    have h1 := c17d_addInteraction_directed g u v (some t0) e
    unfold Graph.addMany
    split
    · rename_i g' hres
      rw [hres] at h1
      rw [ih g']; exact h1
    · rename_i g' err hres
      rw [hres] at h1
      exact h1

theorem c17d_addMany_noLoop {g : Graph} (h : c17d_NoLoop g) (calls : List Call4)
    (hc : ∀ c ∈ calls, c.1 ≠ c.2.1) : c17d_NoLoop (g.addMany calls).1 := by
  induction calls generalizing g with
  | nil => exact h
  | cons c rest ih =>
    have hc0 := hc c List.mem_cons_self
    obtain ⟨u, v, t0, e⟩ := c
    have h1 := c17d_addInteraction_noLoop h u v hc0 (some t0) e
    unfold Graph.addMany
    split
    · rename_i g' hres
      rw [hres] at h1
      exact ih h1 (fun c hcm => hc c (List.mem_cons_of_mem _ hcm))
    · rename_i g' err hres
      rw [hres] at h1
      exact h1

theorem c17d_addFromGo_noLoop {g : Graph} (h : c17d_NoLoop g) (es : List (Node × Node))
    (hes : ∀ p ∈ es, p.1 ≠ p.2) (t e : Option Int) : c17d_NoLoop (g.addFromGo es t e).1 := by
  induction es generalizing g with
  | nil => exact h
  | cons p rest ih =>
    have hp := hes p List.mem_cons_self
    obtain ⟨u, v⟩ := p
    have h1 := c17d_addInteraction_noLoop h u v hp t e
    unfold Graph.addFromGo
    split
    · rename_i g' hres
      rw [hres] at h1
      exact ih h1 (fun q hq => hes q (List.mem_cons_of_mem _ hq))
    · rename_i g' err hres
      rw [hres] at h1
      exact h1

theorem c17d_step_noLoop {g : Graph} (h : c17d_NoLoop g) (op : Op) (hop : ∀ p ∈ op.pairs, p.1 ≠ p.2) :
    c17d_NoLoop (g.step op).1 := by
  unfold Graph.step Graph.addInteractionsFrom
  cases op.t with
  | none => exact h
  | some t0 => exact c17d_addFromGo_noLoop h op.pairs hop (some t0) op.e

theorem c17d_run_noLoop {g : Graph} (h : c17d_NoLoop g) (ops : List Op)
    (hops : ∀ op ∈ ops, ∀ p ∈ op.pairs, p.1 ≠ p.2) : c17d_NoLoop (g.run ops).1 := by
  induction ops generalizing g with
  | nil => exact h
  | cons op rest ih =>
    exact ih (c17d_step_noLoop h op (hops op List.mem_cons_self))
      (fun o ho => hops o (List.mem_cons_of_mem _ ho))

/-- a pair present in a loop-free graph has two different endpoints -/
theorem c17d_noLoop_has {g : Graph} (h : c17d_NoLoop g) {a b : Node} {t : Option Int}
    (hi : g.hasInteraction a b t = true) : a ≠ b := by
  obtain ⟨e, he, hk⟩ := (hasInteraction_flat_iff g a b).mp (q1_has_some_flat g a b t hi)
  have hne := h e he
  rw [q1_key_iff] at hk
  rcases hk with ⟨h1, h2⟩ | ⟨_, h1, h2⟩
  · rw [← h1, ← h2]; exact hne
  · rw [← h1, ← h2]; exact fun hc => hne hc.symm

/-! ## 3. the simple-graph bound -/

/-- in an undirected loop-free graph without repeated pairs whose endpoints are nodes, every adjacency
    row has at most `n − 1` entries -/
theorem c17d_degree_le (g : Graph) (hd : g.directed = false) (hk : q1_Keys g) (hl : c17d_NoLoop g)
    (hn : ∀ e ∈ g.edges, g.hasNodeFlat e.u = true ∧ g.hasNodeFlat e.v = true)
    (v : Node) (hv : v ∈ g.nodeList) (t : Option Int) : g.degree v t ≤ g.nodeList.length - 1 := by
  rw [C02_degree_undirected g hd]
  have hnd : (v :: g.neighbors v t).Nodup := by
    rw [List.nodup_cons]
    refine ⟨?_, (q1_succs_nodup_of_keys hk v).filter _⟩
    intro hm
    exact c17d_noLoop_has hl ((C02_neighbors g v v t).mp hm) rfl
  have hsub : ∀ x ∈ v :: g.neighbors v t, x ∈ g.nodeList := by
    intro x hx
    rcases List.mem_cons.mp hx with rfl | hx
    · exact hv
    · have hi := (C02_neighbors g v x t).mp hx
      obtain ⟨e, he, hke⟩ := (hasInteraction_flat_iff g v x).mp (q1_has_some_flat g v x t hi)
      have hen := hn e he
      rw [q1_hasNodeFlat_iff, q1_hasNodeFlat_iff] at hen
      rw [q1_key_iff] at hke
      rcases hke with ⟨_, h2⟩ | ⟨_, _, h2⟩
      · rw [← h2]; exact hen.2
      · rw [← h2]; exact hen.1
  have := c17d_nodup_subset_length hnd hsub
  rw [List.length_cons] at this
  omega

/-- 2·m ≤ n·(n − 1): the handshake bound of a simple graph, as `size`/`nodes` compute `m` and `n` -/
theorem c17d_simple_bound (g : Graph) (hd : g.directed = false) (hk : q1_Keys g) (hl : c17d_NoLoop g)
    (hn : ∀ e ∈ g.edges, g.hasNodeFlat e.u = true ∧ g.hasNodeFlat e.v = true) (t : Option Int) :
    2 * g.size t ≤ g.nodes.length * (g.nodes.length - 1) := by
  have h1 : g.degreeSum t ≤ g.nodeList.length * (g.nodeList.length - 1) :=
    c17_sum_le_mul g.nodeList (fun n => g.degree n t) _ (fun v hv => c17d_degree_le g hd hk hl hn v hv t)
  have h2 : g.nodeList.length = g.nodes.length := by unfold Graph.nodeList; simp
  rw [h2] at h1
  unfold Graph.size
  omega

/-! ## 4. the slice -/

/-- a successful `time_slice` is the rebuilding loop on the empty graph followed by the attribute copy -/
theorem c17d_timeSlice_shape (g : Graph) (a : Int) (bo : Option Int) (H : Graph)
    (hH : g.timeSlice a bo = .ok H) :
    ∃ h0 : Graph,
      (Graph.empty g.directed true).addMany (sliceCalls a (bo.getD a)
        (if g.directed then g.outInteractionsData else g.interactionsData)) = (h0, none) ∧
      H = { h0 with nodes := copyAttrs g.nodes h0.nodes } := by
  unfold Graph.timeSlice at hH
  simp only at hH
  split at hH
  · cases hH
  · split at hH
    · cases hH
    · rename_i h' heq
      cases hH
      exact ⟨h', heq, rfl⟩

/-- the calls of the rebuilding loop of a loop-free undirected graph name no self-loop -/
theorem c17d_sliceCalls_noLoop (g : Graph) (hl : c17d_NoLoop g) (a b : Int) :
    ∀ c ∈ sliceCalls a b g.interactionsData, c.1 ≠ c.2.1 := by
  intro c hc
  obtain ⟨p, hp, s, _, xy, _, rfl⟩ := (c06_mem_sliceCalls a b _ c).mp hc
  unfold Graph.interactionsData at hp
  rw [List.mem_map] at hp
  obtain ⟨q, hq, rfl⟩ := hp
  obtain ⟨q1, q2⟩ := q
  exact c17d_noLoop_has hl (C02_interactions_mem g none q1 q2 hq)

/-- what the slice of an undirected loop-free graph is, as far as counting goes -/
theorem c17d_slice_simple (g : Graph) (hd : g.directed = false) (hl : c17d_NoLoop g) (a : Int)
    (bo : Option Int) (H : Graph) (hH : g.timeSlice a bo = .ok H) :
    H.directed = false ∧ q1_Keys H ∧ c17d_NoLoop H ∧
      (∀ e ∈ H.edges, H.hasNodeFlat e.u = true ∧ H.hasNodeFlat e.v = true) := by
  have hfull := C06_wellformed g a bo H hH
  obtain ⟨h0, hres, rfl⟩ := c17d_timeSlice_shape g a bo H hH
  rw [hd] at hres
  simp only [Bool.false_eq_true, if_false] at hres
  have hdir := c17d_addMany_directed (Graph.empty false true) (sliceCalls a (bo.getD a) g.interactionsData)
  have hnl := c17d_addMany_noLoop (g := Graph.empty false true) (by intro e he; cases he)
    (sliceCalls a (bo.getD a) g.interactionsData) (c17d_sliceCalls_noLoop g hl a (bo.getD a))
  have hni := c06_addMany_nodeInv (Graph.empty false true) (NodeInv.empty false true)
    (sliceCalls a (bo.getD a) g.interactionsData)
  rw [hres] at hdir hnl hni
  refine ⟨hdir, hfull.wf.keys, hnl, ?_⟩
  intro e he
  rw [c06_nodes_hasNodeFlat, c06_nodes_hasNodeFlat]
  exact hni.endpoints e he

/-- `snapshot_density(t)` ≤ 1 on an undirected graph without stored self-loop (any mode; nothing else is
    assumed of `g`) -/
theorem C17_snapshotDensity_le (g : Graph) (hd : g.directed = false) (hl : ∀ e ∈ g.edges, e.u ≠ e.v)
    (t : Int) (r : Nat × Nat) (h : g.snapshotDensity t = .ok r) : r.1 ≤ r.2 := by
  unfold Graph.snapshotDensity at h
  cases hH : g.timeSlice t none with
  | error e => rw [hH] at h; cases h
  | ok H =>
    rw [hH] at h
    simp only at h
    injection h with h
    obtain ⟨hd', hk', hl', hn'⟩ := c17d_slice_simple g hd hl t none H hH
    have hb := c17d_simple_bound H hd' hk' hl' hn' none
    subst h
    split
    · exact Nat.zero_le _
    · exact hb

/-! ## 5. histories -/

theorem c17d_run_noLoop_empty (d r : Bool) (ops : List Op)
    (hops : ∀ op ∈ ops, ∀ p ∈ op.pairs, p.1 ≠ p.2) : c17d_NoLoop ((Graph.empty d r).run ops).1 :=
  c17d_run_noLoop (by intro e he; cases he) ops hops

/-- both bounds for every state reached from the empty undirected graph (either mode) by add calls none of
    which names a pair `(n, n)`; the node-density half does not need that restriction -/
theorem C17_density_history_anymode (r : Bool) (ops : List Op) :
    let g := ((Graph.empty false r).run ops).1
    (∀ u, (g.nodeDensity u).1 ≤ (g.nodeDensity u).2) ∧
    ((∀ op ∈ ops, ∀ p ∈ op.pairs, p.1 ≠ p.2) →
      ∀ t res, g.snapshotDensity t = .ok res → res.1 ≤ res.2) := by
  intro g
  have hd : g.directed = false := q1_run_directed false r ops
  refine ⟨fun u => C17_nodeDensity_le g hd (q1_run_keys false r ops) (q1_run_nodeInv false r ops).endpoints u, ?_⟩
  intro hops t res h
  exact C17_snapshotDensity_le g hd (c17d_run_noLoop_empty false r ops hops) t res h

/-- both bounds for every history of add calls on `DynGraph(edge_removal=True)` none of which names a
    pair `(n, n)` -/
theorem C17_density_history (ops : List Op) (hops : ∀ op ∈ ops, ∀ p ∈ op.pairs, p.1 ≠ p.2) :
    let g := ((Graph.empty false true).run ops).1
    (∀ u, (g.nodeDensity u).1 ≤ (g.nodeDensity u).2) ∧
    (∀ t res, g.snapshotDensity t = .ok res → res.1 ≤ res.2) := by
  intro g
  have hd : g.directed = false := (C05_reached false ops).2.2.1
  have hwf : WF g := (C05_reached false ops).1
  have hn : NodeInv g := run_nodeInv _ (NodeInv.empty false true) ops
  exact ⟨fun u => C17_nodeDensity_le_wf g hd hwf hn u,
    fun t res h => C17_snapshotDensity_le g hd (c17d_run_noLoop_empty false true ops hops) t res h⟩

/-- on such a history `snapshot_density(t)` always returns (so the bound above is not vacuous) -/
theorem C17_snapshotDensity_history_ok (ops : List Op) (t : Int) :
    ∃ res, ((Graph.empty false true).run ops).1.snapshotDensity t = .ok res := by
  have hwf : WF ((Graph.empty false true).run ops).1 := (C05_reached false ops).1
  have hr : ((Graph.empty false true).run ops).1.removal = true := (C05_reached false ops).2.1
  have hn : NodeInv ((Graph.empty false true).run ops).1 := run_nodeInv _ (NodeInv.empty false true) ops
  obtain ⟨H, hH⟩ := C06_ok _ hwf hr hn t none (by intro b hb; cases hb)
  unfold Graph.snapshotDensity
  rw [hH]
  exact ⟨_, rfl⟩

/-! ## 6. concrete instances -/

/-- pairs (0,1), (0,2) at 0 and (1,2) at 1 -/
def c17d_ex : Graph :=
  ((Graph.empty false true).addMany [(0, 1, 0, none), (0, 2, 0, none), (1, 2, 1, none)]).1

/-- the hypotheses of both theorems hold of `c17d_ex` and the values are not trivial -/
example : c17d_ex.directed = false ∧ q1_Keys c17d_ex ∧ (∀ e ∈ c17d_ex.edges, e.u ≠ e.v) ∧
    (∀ e ∈ c17d_ex.edges, c17d_ex.hasNodeFlat e.u = true ∧ c17d_ex.hasNodeFlat e.v = true) ∧
    c17d_ex.nodeDensity 0 = (2, 3) ∧ c17d_ex.nodeDensity 1 = (2, 5) ∧
    (c17d_ex.snapshotDensity 0).toOption = some (4, 6) ∧ (c17d_ex.snapshotDensity 1).toOption = some (2, 2) ∧
    (c17d_ex.snapshotDensity 7).toOption = some (0, 1) := by decide

example : (c17d_ex.nodeDensity 0).1 ≤ (c17d_ex.nodeDensity 0).2 :=
  C17_nodeDensity_le c17d_ex (by decide) (by decide) (by decide) 0

example : ∀ r, c17d_ex.snapshotDensity 0 = .ok r → r.1 ≤ r.2 :=
  fun r h => C17_snapshotDensity_le c17d_ex (by decide) (by decide) 0 r h

/-! ### the hypotheses cannot be dropped -/

/-- self-loops: `snapshot_density` of {1-1, 1-2, 2-2} is 4/2 (as `nx.density` gives with loops) -/
example : ((((Graph.empty false true).addMany
    [(1, 1, 0, none), (1, 2, 0, none), (2, 2, 0, none)]).1).snapshotDensity 0).toOption = some (4, 2) := by decide

/-- the directed class: the model's `snapshot_density` doubles `m` whatever the class -/
example : ((((Graph.empty true true).addMany
    [(1, 2, 0, none), (2, 1, 0, none)]).1).snapshotDensity 0).toOption = some (4, 2) := by decide

/-- the directed class: `degree` is in + out, the denominator counts every node once -/
example : (((Graph.empty true true).addMany
    [(1, 2, 0, none), (2, 1, 0, none), (1, 3, 0, none), (3, 1, 0, none)]).1).nodeDensity 1 = (4, 3) := by decide

/-- endpoints that are not nodes (not reachable through the API): 2/1 -/
example : ({ Graph.empty false true with
    nodes := [(0, 0)], edges := [⟨0, 1, [(0, 0)]⟩, ⟨0, 2, [(0, 0)]⟩], snaps := [(0, 4)] } : Graph).nodeDensity 0
    = (2, 1) := by decide

/-- a pair stored three times (not reachable through the API): 3/2 -/
example : ({ Graph.empty false true with
    nodes := [(0, 0), (1, 0)], edges := [⟨0, 1, [(0, 0)]⟩, ⟨1, 0, [(0, 0)]⟩, ⟨0, 1, [(0, 0)]⟩],
    snaps := [(0, 6)] } : Graph).nodeDensity 0 = (3, 2) := by decide

end Dynetx

