-- Text round trip: what the writers print (Text.lean) is parsed back by the readers (IO.lean) into
-- exactly the rows; combined with C09 / C10 the graph read from the written text has the same presence.
import DynetxModel
import DynetxProofs.C18Text
import DynetxProofs.C09
import DynetxProofs.C10

namespace Dynetx

open List

/-! ### 0. the writer's join is the join of C18Text -/

theorem txt_joinFields_eq (d : Char) (fs : List (List Char)) : joinFields d fs = c18t_join d fs := by
  induction fs with
  | nil => rfl
  | cons f rest ih =>
    cases rest with
    | nil => rfl
    | cons g gs => simp only [joinFields, c18t_join, ih]

/-! ### 1. digits -/

theorem txt_digitChar_isDigit : ∀ k, k < 10 → (digitChar k).isDigit = true := by decide

theorem txt_digitChar_val : ∀ k, k < 10 → digitVal (digitChar k) = some k := by decide

theorem txt_isDigit_not_ws (c : Char) (h : c.isDigit = true) : isWs c = false := by
  cases hw : isWs c with
  | false => rfl
  | true =>
    simp only [isWs, Bool.or_eq_true, beq_iff_eq] at hw
    rcases hw with ((((hw | hw) | hw) | hw) | hw) | hw <;> (rw [hw] at h; revert h; decide)

theorem txt_natDigits_ne_nil (n : Nat) : natDigits n ≠ [] := by
  unfold natDigits
  split <;> simp

theorem txt_natDigits_isDigit (n : Nat) : ∀ c ∈ natDigits n, c.isDigit = true := by
  fun_induction natDigits n with
  | case1 n h =>
    intro c hc
    simp only [List.mem_singleton] at hc
    rw [hc]; exact txt_digitChar_isDigit n h
  | case2 n h ih =>
    intro c hc
    simp only [List.mem_append, List.mem_singleton] at hc
    rcases hc with hc | hc
    · exact ih c hc
    · rw [hc]; exact txt_digitChar_isDigit _ (by omega)

/-- one step of the fold of `natOfDigits` -/
def txt_step (acc : Option Nat) (c : Char) : Option Nat :=
  match acc, digitVal c with
  | some a, some d => some (a * 10 + d)
  | _, _ => none

theorem txt_natOfDigits_fold (l : List Char) (h : l ≠ []) :
    natOfDigits l = l.foldl txt_step (some 0) := by
  cases l with
  | nil => exact absurd rfl h
  | cons a l => rfl

theorem txt_natOfDigits_snoc (xs : List Char) (c : Char) (h : xs ≠ []) :
    natOfDigits (xs ++ [c]) = txt_step (natOfDigits xs) c := by
  rw [txt_natOfDigits_fold _ (by simp), txt_natOfDigits_fold _ h, List.foldl_append]
  rfl

theorem txt_natOfDigits_natDigits (n : Nat) : natOfDigits (natDigits n) = some n := by
  fun_induction natDigits n with
  | case1 n h =>
    rw [txt_natOfDigits_fold _ (by simp)]
    simp [txt_step, txt_digitChar_val n h]
  | case2 n h ih =>
    rw [txt_natOfDigits_snoc _ _ (txt_natDigits_ne_nil _), ih]
    simp only [txt_step, txt_digitChar_val _ (Nat.mod_lt n (by omega : 10 > 0))]
    congr 1; omega

theorem txt_natDigits_not_ws (n : Nat) : ∀ c ∈ natDigits n, isWs c = false :=
  fun c hc => txt_isDigit_not_ws c (txt_natDigits_isDigit n c hc)

theorem txt_isWs_minus : isWs '-' = false := by decide

theorem txt_intDigits_ne_nil (z : Int) : intDigits z ≠ [] := by
  cases z with
  | ofNat n => exact txt_natDigits_ne_nil n
  | negSucc n => simp [intDigits]

theorem txt_intDigits_mem (z : Int) (c : Char) (h : c ∈ intDigits z) : c.isDigit = true ∨ c = '-' := by
  cases z with
  | ofNat n => exact Or.inl (txt_natDigits_isDigit n c h)
  | negSucc n =>
    simp only [intDigits, List.mem_cons] at h
    rcases h with h | h
    · exact Or.inr h
    · exact Or.inl (txt_natDigits_isDigit _ c h)

theorem txt_intDigits_not_ws (z : Int) : ∀ c ∈ intDigits z, isWs c = false := by
  intro c hc
  rcases txt_intDigits_mem z c hc with h | h
  · exact txt_isDigit_not_ws c h
  · rw [h]; exact txt_isWs_minus

/-- `strip` does nothing on a non-empty string without whitespace -/
theorem txt_strip_clean (l : List Char) (h : ∀ c ∈ l, isWs c = false) : strip l = l :=
  c18t_strip_ends l (fun c hc => h c (List.mem_of_head? hc)) (fun c hc => h c (List.mem_of_getLast? hc))

/-- `int(s)` on a string of digits -/
theorem txt_intOf_digits (l : List Char) (hd : ∀ c ∈ l, c.isDigit = true) (n : Nat)
    (hn : natOfDigits l = some n) : intOf l = some (n : Int) := by
  unfold intOf
  rw [txt_strip_clean l (fun c hc => txt_isDigit_not_ws c (hd c hc))]
  split
  · next ds => exact absurd (hd '-' (by simp)) (by decide)
  · next ds => exact absurd (hd '+' (by simp)) (by decide)
  · rw [hn]; rfl

theorem txt_intOf_neg (l : List Char) (hd : ∀ c ∈ l, c.isDigit = true) (n : Nat)
    (hn : natOfDigits l = some n) : intOf ('-' :: l) = some (- (n : Int)) := by
  unfold intOf
  rw [txt_strip_clean ('-' :: l) (by
    intro c hc
    simp only [List.mem_cons] at hc
    rcases hc with hc | hc
    · rw [hc]; exact txt_isWs_minus
    · exact txt_isDigit_not_ws c (hd c hc))]
  simp only [hn]
  rfl

theorem txt_intOf_natDigits (n : Nat) : intOf (natDigits n) = some (n : Int) :=
  txt_intOf_digits _ (txt_natDigits_isDigit n) n (txt_natOfDigits_natDigits n)

/-- **`int(str(n)) = n`** for node ids -/
theorem Text_nat_roundtrip (n : Nat) : nodeOf (natDigits n) = some n := by
  unfold nodeOf
  rw [txt_intOf_natDigits]

/-- **`int(str(z)) = z`** for timestamps -/
theorem Text_int_roundtrip (z : Int) : intOf (intDigits z) = some z := by
  cases z with
  | ofNat n => exact txt_intOf_natDigits n
  | negSucc n =>
    simp only [intDigits]
    rw [txt_intOf_neg _ (txt_natDigits_isDigit _) _ (txt_natOfDigits_natDigits _)]
    simp only [Option.some.injEq]
    omega

/-- the printed numbers contain only decimal digits and `'-'`, and no whitespace -/
theorem Text_digits_clean (c : Char) (hc : c.isDigit = false) (hm : c ≠ '-') (n : Nat) (z : Int) :
    c ∉ natDigits n ∧ c ∉ intDigits z ∧
    (∀ x ∈ natDigits n, isWs x = false) ∧ (∀ x ∈ intDigits z, isWs x = false) := by
  refine ⟨?_, ?_, txt_natDigits_not_ws n, txt_intDigits_not_ws z⟩
  · intro h
    rw [txt_natDigits_isDigit n c h] at hc
    exact Bool.noConfusion hc
  · intro h
    rcases txt_intDigits_mem z c h with h | h
    · rw [h] at hc; exact Bool.noConfusion hc
    · exact hm h

/-! ### 2. one line -/

/-- fields without whitespace, delimiter or comment marker, joined by the delimiter (which may itself be
    whitespace), are read back as exactly those fields -/
theorem txt_fieldsOf_join (cm d : Char) (fs : List (List Char)) (hfs : fs ≠ [])
    (hne : ∀ f ∈ fs, f ≠ []) (hws : ∀ f ∈ fs, ∀ c ∈ f, isWs c = false)
    (hd : ∀ f ∈ fs, d ∉ f) (hcm : ∀ f ∈ fs, cm ∉ f) (hcd : cm ≠ d) :
    fieldsOf cm (some d) (joinFields d fs) = some fs := by
  rw [txt_joinFields_eq]
  refine C18_delimiter_fields cm d fs hfs (c18t_join_ne_nil d fs hfs hne) hd ?_ ?_ ?_
  · intro hm
    rcases c18t_mem_join d fs cm hm with h | ⟨f, hf, hc⟩
    · exact hcd h
    · exact hcm f hf hc
  · intro c hc
    obtain ⟨f, hf, hcf⟩ := c18t_join_head d fs hne c hc
    exact hws f hf c hcf
  · intro c hc
    obtain ⟨f, hf, hcf⟩ := c18t_join_last d fs hne c hc
    exact hws f hf c hcf

theorem txt_fieldsOf_join_default (cm : Char) (fs : List (List Char)) (hfs : fs ≠ [])
    (hne : ∀ f ∈ fs, f ≠ []) (hws : ∀ f ∈ fs, ∀ c ∈ f, isWs c = false)
    (hcm : ∀ f ∈ fs, cm ∉ f) (hcd : cm ≠ ' ') :
    fieldsOf cm none (joinFields ' ' fs) = some fs := by
  rw [txt_joinFields_eq]
  exact C18_whitespace_fields cm fs hfs hne hws hcm hcd

/-- the three fields of a snapshot line -/
def txt_snapFields (u v : Node) (t : Int) : List (List Char) := [natDigits u, natDigits v, intDigits t]

theorem txt_snapFields_ne (u v : Node) (t : Int) : ∀ f ∈ txt_snapFields u v t, f ≠ [] := by
  intro f hf
  simp only [txt_snapFields, List.mem_cons, List.not_mem_nil, or_false] at hf
  rcases hf with hf | hf | hf <;> rw [hf]
  · exact txt_natDigits_ne_nil u
  · exact txt_natDigits_ne_nil v
  · exact txt_intDigits_ne_nil t

theorem txt_snapFields_ws (u v : Node) (t : Int) : ∀ f ∈ txt_snapFields u v t, ∀ c ∈ f, isWs c = false := by
  intro f hf
  simp only [txt_snapFields, List.mem_cons, List.not_mem_nil, or_false] at hf
  rcases hf with hf | hf | hf <;> rw [hf]
  · exact txt_natDigits_not_ws u
  · exact txt_natDigits_not_ws v
  · exact txt_intDigits_not_ws t

theorem txt_snapFields_notin (c : Char) (hc : c.isDigit = false ∧ c ≠ '-') (u v : Node) (t : Int) :
    ∀ f ∈ txt_snapFields u v t, c ∉ f := by
  intro f hf
  simp only [txt_snapFields, List.mem_cons, List.not_mem_nil, or_false] at hf
  rcases hf with hf | hf | hf <;> rw [hf]
  · exact (Text_digits_clean c hc.1 hc.2 u t).1
  · exact (Text_digits_clean c hc.1 hc.2 v t).1
  · exact (Text_digits_clean c hc.1 hc.2 u t).2.1

theorem txt_snapRow_of_fields (cm : Char) (delim : Option Char) (line : List Char) (u v : Node) (t : Int)
    (h : fieldsOf cm delim line = some (txt_snapFields u v t)) : snapRow cm delim line = .row u v t none := by
  simp only [snapRow, h, txt_snapFields, Text_nat_roundtrip, Text_int_roundtrip]

/-- **a written snapshot line is read back as its row** (explicit delimiter, possibly whitespace) -/
theorem Text_snapRow (cm d : Char) (u v : Node) (t : Int)
    (hd : d.isDigit = false ∧ d ≠ '-') (hcm : cm.isDigit = false ∧ cm ≠ '-' ∧ cm ≠ d) :
    snapRow cm (some d) (joinFields d [natDigits u, natDigits v, intDigits t]) = .row u v t none :=
  txt_snapRow_of_fields cm (some d) _ u v t
    (txt_fieldsOf_join cm d (txt_snapFields u v t) (by simp [txt_snapFields]) (txt_snapFields_ne u v t)
      (txt_snapFields_ws u v t) (txt_snapFields_notin d hd u v t)
      (txt_snapFields_notin cm ⟨hcm.1, hcm.2.1⟩ u v t) hcm.2.2)

/-- writer's default delimiter `' '`, reader's default `split()` -/
theorem Text_snapRow_default (cm : Char) (u v : Node) (t : Int)
    (hcm : cm.isDigit = false ∧ cm ≠ '-' ∧ cm ≠ ' ') :
    snapRow cm none (joinFields ' ' [natDigits u, natDigits v, intDigits t]) = .row u v t none :=
  txt_snapRow_of_fields cm none _ u v t
    (txt_fieldsOf_join_default cm (txt_snapFields u v t) (by simp [txt_snapFields]) (txt_snapFields_ne u v t)
      (txt_snapFields_ws u v t) (txt_snapFields_notin cm ⟨hcm.1, hcm.2.1⟩ u v t) hcm.2.2)

/-- the four fields of an interaction line -/
def txt_intFields (u v : Node) (plus : Bool) (t : Int) : List (List Char) :=
  [natDigits u, natDigits v, [if plus then '+' else '-'], intDigits t]

theorem txt_intFields_ne (u v : Node) (plus : Bool) (t : Int) : ∀ f ∈ txt_intFields u v plus t, f ≠ [] := by
  intro f hf
  simp only [txt_intFields, List.mem_cons, List.not_mem_nil, or_false] at hf
  rcases hf with hf | hf | hf | hf <;> rw [hf]
  · exact txt_natDigits_ne_nil u
  · exact txt_natDigits_ne_nil v
  · simp
  · exact txt_intDigits_ne_nil t

theorem txt_intFields_ws (u v : Node) (plus : Bool) (t : Int) :
    ∀ f ∈ txt_intFields u v plus t, ∀ c ∈ f, isWs c = false := by
  intro f hf
  simp only [txt_intFields, List.mem_cons, List.not_mem_nil, or_false] at hf
  rcases hf with hf | hf | hf | hf <;> rw [hf]
  · exact txt_natDigits_not_ws u
  · exact txt_natDigits_not_ws v
  · intro c hc
    simp only [List.mem_singleton] at hc
    rw [hc]; cases plus <;> decide
  · exact txt_intDigits_not_ws t

theorem txt_intFields_notin (c : Char) (hc : c.isDigit = false ∧ c ≠ '-' ∧ c ≠ '+') (u v : Node)
    (plus : Bool) (t : Int) : ∀ f ∈ txt_intFields u v plus t, c ∉ f := by
  intro f hf
  simp only [txt_intFields, List.mem_cons, List.not_mem_nil, or_false] at hf
  rcases hf with hf | hf | hf | hf <;> rw [hf]
  · exact (Text_digits_clean c hc.1 hc.2.1 u t).1
  · exact (Text_digits_clean c hc.1 hc.2.1 v t).1
  · intro hm
    simp only [List.mem_singleton] at hm
    cases plus
    · exact hc.2.1 (by simpa using hm)
    · exact hc.2.2 (by simpa using hm)
  · exact (Text_digits_clean c hc.1 hc.2.1 u t).2.1

theorem txt_intRow_of_fields (cm : Char) (delim : Option Char) (line : List Char) (u v : Node)
    (plus : Bool) (t : Int) (h : fieldsOf cm delim line = some (txt_intFields u v plus t)) :
    intRow cm delim line = .row { t := t, u := u, v := v, plus := plus } := by
  have hop : ([if plus then '+' else '-'] == ['+']) = plus := by cases plus <;> decide
  simp only [intRow, h, txt_intFields, Text_nat_roundtrip, Text_int_roundtrip, hop]

/-- **a written interaction line is read back as its row** (explicit delimiter, possibly whitespace;
    the operation field is `+` or `-`, so neither may be the delimiter or the comment marker) -/
theorem Text_intRow (cm d : Char) (u v : Node) (plus : Bool) (t : Int)
    (hd : d.isDigit = false ∧ d ≠ '-' ∧ d ≠ '+')
    (hcm : cm.isDigit = false ∧ cm ≠ '-' ∧ cm ≠ '+' ∧ cm ≠ d) :
    intRow cm (some d)
        (joinFields d [natDigits u, natDigits v, [if plus then '+' else '-'], intDigits t])
      = .row { t := t, u := u, v := v, plus := plus } :=
  txt_intRow_of_fields cm (some d) _ u v plus t
    (txt_fieldsOf_join cm d (txt_intFields u v plus t) (by simp [txt_intFields]) (txt_intFields_ne u v plus t)
      (txt_intFields_ws u v plus t) (txt_intFields_notin d hd u v plus t)
      (txt_intFields_notin cm ⟨hcm.1, hcm.2.1, hcm.2.2.1⟩ u v plus t) hcm.2.2.2)

theorem Text_intRow_default (cm : Char) (u v : Node) (plus : Bool) (t : Int)
    (hcm : cm.isDigit = false ∧ cm ≠ '-' ∧ cm ≠ '+' ∧ cm ≠ ' ') :
    intRow cm none
        (joinFields ' ' [natDigits u, natDigits v, [if plus then '+' else '-'], intDigits t])
      = .row { t := t, u := u, v := v, plus := plus } :=
  txt_intRow_of_fields cm none _ u v plus t
    (txt_fieldsOf_join_default cm (txt_intFields u v plus t) (by simp [txt_intFields])
      (txt_intFields_ne u v plus t) (txt_intFields_ws u v plus t)
      (txt_intFields_notin cm ⟨hcm.1, hcm.2.1, hcm.2.2.1⟩ u v plus t) hcm.2.2.2)

/-! ### 3. whole files -/

/-- if every line parses to its row, the clean rows of the text are the rows and no line is bad -/
theorem txt_cleanS_map (cm : Char) (delim : Option Char) (line : Node × Node × Int → List Char)
    (h : ∀ r, snapRow cm delim (line r) = .row r.1 r.2.1 r.2.2 none) (rows : List (Node × Node × Int)) :
    c18t_cleanS cm delim (rows.map line) = (rows.map (fun r => (r.1, r.2.1, r.2.2, none)), false) := by
  induction rows with
  | nil => rfl
  | cons r rest ih => simp only [List.map_cons, c18t_cleanS, h r, ih]

theorem txt_parseSnapshotsText_map (directed : Bool) (cm : Char) (delim : Option Char)
    (line : Node × Node × Int → List Char)
    (h : ∀ r, snapRow cm delim (line r) = .row r.1 r.2.1 r.2.2 none) (rows : List (Node × Node × Int)) :
    parseSnapshotsText directed cm delim (rows.map line)
      = parseSnapshots directed (rows.map (fun r => (r.1, r.2.1, r.2.2, none))) := by
  unfold parseSnapshotsText parseSnapshots
  rw [c18t_goS, txt_cleanS_map cm delim line h rows]
  simp [c18t_finish]

theorem txt_cleanI_map (cm : Char) (delim : Option Char) (line : Ev → List Char)
    (h : ∀ r, intRow cm delim (line r) = .row r) (rows : List Ev) :
    c18t_cleanI cm delim (rows.map line) = (rows, false) := by
  induction rows with
  | nil => rfl
  | cons r rest ih => simp only [List.map_cons, c18t_cleanI, h r, ih]

theorem txt_parseInteractionsText_map (directed : Bool) (cm : Char) (delim : Option Char)
    (line : Ev → List Char) (h : ∀ r, intRow cm delim (line r) = .row r) (rows : List Ev) :
    parseInteractionsText directed cm delim (rows.map line) = parseInteractions directed rows := by
  unfold parseInteractionsText parseInteractions
  rw [c18t_goI, txt_cleanI_map cm delim line h rows]
  simp [c18t_finish]

theorem txt_snapshotLines_eq (g : Graph) (d : Char) :
    g.snapshotLines d
      = g.genSnapshots.map (fun r => joinFields d [natDigits r.1, natDigits r.2.1, intDigits r.2.2]) := rfl

/-- **C09 at text level**: the lines written by `generate_snapshots(G, d)` are read by
    `parse_snapshots(delimiter=d)` exactly as the rows of `generate_snapshots` -/
theorem C09_text_roundtrip (g : Graph) (cm d : Char)
    (hd : d.isDigit = false ∧ d ≠ '-') (hcm : cm.isDigit = false ∧ cm ≠ '-' ∧ cm ≠ d) :
    parseSnapshotsText g.directed cm (some d) (g.snapshotLines d)
      = parseSnapshots g.directed (g.genSnapshots.map (fun r => (r.1, r.2.1, r.2.2, none))) := by
  rw [txt_snapshotLines_eq]
  exact txt_parseSnapshotsText_map g.directed cm (some d) _
    (fun r => Text_snapRow cm d r.1 r.2.1 r.2.2 hd hcm) g.genSnapshots

theorem C09_text_roundtrip_default (g : Graph) (cm : Char)
    (hcm : cm.isDigit = false ∧ cm ≠ '-' ∧ cm ≠ ' ') :
    parseSnapshotsText g.directed cm none (g.snapshotLines ' ')
      = parseSnapshots g.directed (g.genSnapshots.map (fun r => (r.1, r.2.1, r.2.2, none))) := by
  rw [txt_snapshotLines_eq]
  exact txt_parseSnapshotsText_map g.directed cm none _
    (fun r => Text_snapRow_default cm r.1 r.2.1 r.2.2 hcm) g.genSnapshots

/-- **C10 at text level** -/
theorem C10_text_roundtrip (g : Graph) (cm d : Char)
    (hd : d.isDigit = false ∧ d ≠ '-' ∧ d ≠ '+')
    (hcm : cm.isDigit = false ∧ cm ≠ '-' ∧ cm ≠ '+' ∧ cm ≠ d) :
    parseInteractionsText g.directed cm (some d) (g.interactionLines d)
      = parseInteractions g.directed g.genInteractions := by
  unfold Graph.interactionLines
  exact txt_parseInteractionsText_map g.directed cm (some d) _
    (fun r => Text_intRow cm d r.u r.v r.plus r.t hd hcm) g.genInteractions

theorem C10_text_roundtrip_default (g : Graph) (cm : Char)
    (hcm : cm.isDigit = false ∧ cm ≠ '-' ∧ cm ≠ '+' ∧ cm ≠ ' ') :
    parseInteractionsText g.directed cm none (g.interactionLines ' ')
      = parseInteractions g.directed g.genInteractions := by
  unfold Graph.interactionLines
  exact txt_parseInteractionsText_map g.directed cm none _
    (fun r => Text_intRow_default cm r.u r.v r.plus r.t hcm) g.genInteractions

/-! ### 4. presence: write, read, same graph -/

/-- general form: any admissible comment marker and delimiter; the graph read from the written text
    is well formed, has the direction of `g` and the presence of `g` -/
theorem C09_text_presence_gen (d0 : Bool) (ops : List Op) (cm d : Char)
    (hd : d.isDigit = false ∧ d ≠ '-') (hcm : cm.isDigit = false ∧ cm ≠ '-' ∧ cm ≠ d) :
    let g := ((Graph.empty d0 true).run ops).1
    ∃ H, parseSnapshotsText d0 cm (some d) (g.snapshotLines d) = (H, none) ∧ WF H ∧ H.directed = d0 ∧
      ∀ u v x, H.hasInteraction u v (some x) = g.hasInteraction u v (some x) := by
  intro g
  have hdir : g.directed = d0 := (run_ok (Graph.empty d0 true) (WF.empty _ _) rfl ops).directed
  obtain ⟨H, h1, h2, h3, h4⟩ := (C09_history d0 ops).2.2
  refine ⟨H, ?_, h2, h3, h4⟩
  have := C09_text_roundtrip g cm d hd hcm
  rw [hdir] at this
  rw [this]; exact h1

theorem C09_text_presence_gen_default (d0 : Bool) (ops : List Op) (cm : Char)
    (hcm : cm.isDigit = false ∧ cm ≠ '-' ∧ cm ≠ ' ') :
    let g := ((Graph.empty d0 true).run ops).1
    ∃ H, parseSnapshotsText d0 cm none (g.snapshotLines ' ') = (H, none) ∧ WF H ∧ H.directed = d0 ∧
      ∀ u v x, H.hasInteraction u v (some x) = g.hasInteraction u v (some x) := by
  intro g
  have hdir : g.directed = d0 := (run_ok (Graph.empty d0 true) (WF.empty _ _) rfl ops).directed
  obtain ⟨H, h1, h2, h3, h4⟩ := (C09_history d0 ops).2.2
  refine ⟨H, ?_, h2, h3, h4⟩
  have := C09_text_roundtrip_default g cm hcm
  rw [hdir] at this
  rw [this]; exact h1

/-- **C09, text**: for every graph built by a history of calls, `write_snapshots` with the default
    delimiter followed by `read_snapshots` (comment marker `#`; reader delimiter `' '` or the default
    `None`) raises nothing and gives a graph with the same presence -/
theorem C09_text_presence (d0 : Bool) (ops : List Op) :
    let g := ((Graph.empty d0 true).run ops).1
    (∃ H, parseSnapshotsText d0 '#' (some ' ') (g.snapshotLines ' ') = (H, none) ∧
      ∀ u v x, H.hasInteraction u v (some x) = g.hasInteraction u v (some x)) ∧
    (∃ H, parseSnapshotsText d0 '#' none (g.snapshotLines ' ') = (H, none) ∧
      ∀ u v x, H.hasInteraction u v (some x) = g.hasInteraction u v (some x)) := by
  intro g
  constructor
  · obtain ⟨H, h1, _, _, h4⟩ :=
      C09_text_presence_gen d0 ops '#' ' ' (by decide) (by decide)
    exact ⟨H, h1, h4⟩
  · obtain ⟨H, h1, _, _, h4⟩ := C09_text_presence_gen_default d0 ops '#' (by decide)
    exact ⟨H, h1, h4⟩

/-- **C10, text** (partial in the same sense as `C10_roundtrip_partial`: the hypothesis excludes the
    known finding D5): the interaction file written with the default delimiter is read back without
    exception into a graph with the same presence -/
theorem C10_text_presence_partial (d0 : Bool) (ops : List Op) :
    let g := ((Graph.empty d0 true).run ops).1
    (∀ ed ∈ g.edges, ∀ s ∈ ed.tl, s.1 < s.2 →
      ∃ ev ∈ g.stream, ev.plus = false ∧ ev.t = s.2 + 1 ∧ sameKey d0 ed.u ed.v ev.u ev.v = true) →
    (∃ H, parseInteractionsText d0 '#' (some ' ') (g.interactionLines ' ') = (H, none) ∧ WF H ∧
      H.directed = d0 ∧ ∀ a b x, H.hasInteraction a b (some x) = g.hasInteraction a b (some x)) ∧
    (∃ H, parseInteractionsText d0 '#' none (g.interactionLines ' ') = (H, none) ∧ WF H ∧
      H.directed = d0 ∧ ∀ a b x, H.hasInteraction a b (some x) = g.hasInteraction a b (some x)) := by
  intro g hclosed
  have hdir : g.directed = d0 := (run_ok (Graph.empty d0 true) (WF.empty _ _) rfl ops).directed
  obtain ⟨H, h1, h2, h3, h4⟩ := (C10_roundtrip_partial d0 ops hclosed).2.2
  have e1 := C10_text_roundtrip g '#' ' ' (by decide) (by decide)
  have e2 := C10_text_roundtrip_default g '#' (by decide)
  rw [hdir] at e1 e2
  exact ⟨⟨H, by rw [e1]; exact h1, h2, h3, h4⟩, ⟨H, by rw [e2]; exact h1, h2, h3, h4⟩⟩

/-! ### 4'. reader default `split()` against any whitespace writer delimiter (e.g. a tab) -/

theorem txt_splitWs_join (d : Char) (hdw : isWs d = true) (fs : List (List Char)) (hne : ∀ f ∈ fs, f ≠ [])
    (h : ∀ f ∈ fs, ∀ c ∈ f, isWs c = false) : splitWs (c18t_join d fs) = fs := by
  unfold splitWs
  induction fs with
  | nil => simp [c18t_join, splitWs.go]
  | cons f rest ih =>
    have hf := h f (by simp)
    have hfne : f ≠ [] := hne f (by simp)
    cases rest with
    | nil =>
      have := c18t_splitWs_go_prefix f [] [] hf
      simp only [List.append_nil] at this
      simp [c18t_join, this, splitWs.go, hfne]
    | cons g gs =>
      have ih' := ih (fun x hx => hne x (by simp [hx])) (fun x hx => h x (by simp [hx]))
      simp only [c18t_join]
      rw [c18t_splitWs_go_prefix f [] _ hf]
      simp only [List.append_nil, splitWs.go, hdw]
      simp [hfne, ih']

theorem txt_fieldsOf_join_ws (cm d : Char) (hdw : isWs d = true) (fs : List (List Char)) (hfs : fs ≠ [])
    (hne : ∀ f ∈ fs, f ≠ []) (hws : ∀ f ∈ fs, ∀ c ∈ f, isWs c = false)
    (hcm : ∀ f ∈ fs, cm ∉ f) (hcd : cm ≠ d) :
    fieldsOf cm none (joinFields d fs) = some fs := by
  rw [txt_joinFields_eq]
  have hnot : cm ∉ c18t_join d fs := by
    intro hm
    rcases c18t_mem_join d fs cm hm with h | ⟨f, hf, hc⟩
    · exact hcd h
    · exact hcm f hf hc
  have h1 : ∀ c, (c18t_join d fs).head? = some c → isWs c = false := by
    intro c hc
    obtain ⟨f, hf, hcf⟩ := c18t_join_head d fs hne c hc
    exact hws f hf c hcf
  have h2 : ∀ c, (c18t_join d fs).getLast? = some c → isWs c = false := by
    intro c hc
    obtain ⟨f, hf, hcf⟩ := c18t_join_last d fs hne c hc
    exact hws f hf c hcf
  rw [c18t_fieldsOf_eq, c18t_cutComment_notin cm _ hnot, c18t_strip_ends _ h1 h2]
  have : (c18t_join d fs).isEmpty = false := by
    simpa using c18t_join_ne_nil d fs hfs hne
  simp [this, c18t_split, txt_splitWs_join d hdw fs hne hws]

theorem Text_snapRow_default_ws (cm d : Char) (u v : Node) (t : Int) (hdw : isWs d = true)
    (hcm : cm.isDigit = false ∧ cm ≠ '-' ∧ cm ≠ d) :
    snapRow cm none (joinFields d [natDigits u, natDigits v, intDigits t]) = .row u v t none :=
  txt_snapRow_of_fields cm none _ u v t
    (txt_fieldsOf_join_ws cm d hdw (txt_snapFields u v t) (by simp [txt_snapFields]) (txt_snapFields_ne u v t)
      (txt_snapFields_ws u v t) (txt_snapFields_notin cm ⟨hcm.1, hcm.2.1⟩ u v t) hcm.2.2)

theorem Text_intRow_default_ws (cm d : Char) (u v : Node) (plus : Bool) (t : Int) (hdw : isWs d = true)
    (hcm : cm.isDigit = false ∧ cm ≠ '-' ∧ cm ≠ '+' ∧ cm ≠ d) :
    intRow cm none
        (joinFields d [natDigits u, natDigits v, [if plus then '+' else '-'], intDigits t])
      = .row { t := t, u := u, v := v, plus := plus } :=
  txt_intRow_of_fields cm none _ u v plus t
    (txt_fieldsOf_join_ws cm d hdw (txt_intFields u v plus t) (by simp [txt_intFields])
      (txt_intFields_ne u v plus t) (txt_intFields_ws u v plus t)
      (txt_intFields_notin cm ⟨hcm.1, hcm.2.1, hcm.2.2.1⟩ u v plus t) hcm.2.2.2)

/-- writer delimiter any whitespace character (space, tab, ...), reader default -/
theorem C09_text_roundtrip_default_ws (g : Graph) (cm d : Char) (hdw : isWs d = true)
    (hcm : cm.isDigit = false ∧ cm ≠ '-' ∧ cm ≠ d) :
    parseSnapshotsText g.directed cm none (g.snapshotLines d)
      = parseSnapshots g.directed (g.genSnapshots.map (fun r => (r.1, r.2.1, r.2.2, none))) := by
  rw [txt_snapshotLines_eq]
  exact txt_parseSnapshotsText_map g.directed cm none _
    (fun r => Text_snapRow_default_ws cm d r.1 r.2.1 r.2.2 hdw hcm) g.genSnapshots

theorem C10_text_roundtrip_default_ws (g : Graph) (cm d : Char) (hdw : isWs d = true)
    (hcm : cm.isDigit = false ∧ cm ≠ '-' ∧ cm ≠ '+' ∧ cm ≠ d) :
    parseInteractionsText g.directed cm none (g.interactionLines d)
      = parseInteractions g.directed g.genInteractions := by
  unfold Graph.interactionLines
  exact txt_parseInteractionsText_map g.directed cm none _
    (fun r => Text_intRow_default_ws cm d r.u r.v r.plus r.t hdw hcm) g.genInteractions

/-! ### 5. examples, and the hypotheses on delimiter / comment marker are needed -/

deriving instance DecidableEq for RowI

example : natDigits 1203 = ['1', '2', '0', '3'] := by simp [natDigits, digitChar]
example : natDigits 0 = ['0'] := by simp [natDigits, digitChar]
example : intDigits (-45) = ['-', '4', '5'] := by
  show intDigits (Int.negSucc 44) = _
  simp [intDigits, natDigits, digitChar]

theorem txt_demo_snapLine :
    joinFields ',' [natDigits 12, natDigits 7, intDigits (-3)] = "12,7,-3".toList := by
  show joinFields ',' [natDigits 12, natDigits 7, intDigits (Int.negSucc 2)] = _
  simp [joinFields, intDigits, natDigits, digitChar]

example : snapRow '#' (some ',') "12,7,-3".toList = .row 12 7 (-3) none := by decide
example : snapRow '#' (some ',') (joinFields ',' [natDigits 12, natDigits 7, intDigits (-3)])
    = .row 12 7 (-3) none := by rw [txt_demo_snapLine]; decide
example : snapRow '#' (some ',') (joinFields ',' [natDigits 12, natDigits 7, intDigits (-3)])
    = .row 12 7 (-3) none := Text_snapRow '#' ',' 12 7 (-3) (by decide) (by decide)
example : snapRow '#' (some '\t') "12\t7\t-3".toList = .row 12 7 (-3) none := by decide
example : intRow '#' none "12 7 - 30".toList = .row { t := 30, u := 12, v := 7, plus := false } := by decide

/-- `d ≠ '-'` is needed (snapshots): with delimiter `-` a negative timestamp gives an empty field -/
theorem Text_snapRow_minus_delimiter_fails :
    snapRow '#' (some '-') (joinFields '-' [natDigits 1, natDigits 2, intDigits (-3)]) = .bad := by
  show snapRow '#' (some '-') (joinFields '-' [natDigits 1, natDigits 2, intDigits (Int.negSucc 2)]) = _
  have : joinFields '-' [natDigits 1, natDigits 2, intDigits (Int.negSucc 2)] = "1-2--3".toList := by
    simp [joinFields, intDigits, natDigits, digitChar]
  rw [this]; decide

/-- `d ≠ '+'` is needed (interactions): the line of a `+` row with delimiter `+` has five fields, skipped -/
theorem Text_intRow_plus_delimiter_fails :
    intRow '#' (some '+') (joinFields '+' [natDigits 1, natDigits 2, [if true then '+' else '-'], intDigits 3])
      = .skip := by
  have : joinFields '+' [natDigits 1, natDigits 2, [if true then '+' else '-'], intDigits 3]
      = "1+2+++3".toList := by
    show joinFields '+' [natDigits 1, natDigits 2, _, intDigits (Int.ofNat 3)] = _
    simp [joinFields, intDigits, natDigits, digitChar]
  rw [this]; decide

/-- `cm ≠ '+'` is needed (interactions): the comment marker `+` cuts every `+` row, which is then skipped -/
theorem Text_intRow_plus_comment_fails :
    intRow '+' (some ' ') (joinFields ' ' [natDigits 1, natDigits 2, [if true then '+' else '-'], intDigits 3])
      = .skip := by
  have : joinFields ' ' [natDigits 1, natDigits 2, [if true then '+' else '-'], intDigits 3]
      = "1 2 + 3".toList := by
    show joinFields ' ' [natDigits 1, natDigits 2, _, intDigits (Int.ofNat 3)] = _
    simp [joinFields, intDigits, natDigits, digitChar]
  rw [this]; decide

/-- `cm ≠ d` is needed -/
theorem Text_snapRow_comment_is_delimiter_fails :
    snapRow ',' (some ',') (joinFields ',' [natDigits 1, natDigits 2, intDigits 3]) = .skip := by
  have : joinFields ',' [natDigits 1, natDigits 2, intDigits 3] = "1,2,3".toList := by
    show joinFields ',' [natDigits 1, natDigits 2, intDigits (Int.ofNat 3)] = _
    simp [joinFields, intDigits, natDigits, digitChar]
  rw [this]; decide

/-- the reader's default `split()` does not read a file written with another (non-whitespace) delimiter -/
theorem Text_snapRow_default_mismatch :
    snapRow '#' none (joinFields ',' [natDigits 1, natDigits 2, intDigits 3]) = .skip := by
  have : joinFields ',' [natDigits 1, natDigits 2, intDigits 3] = "1,2,3".toList := by
    show joinFields ',' [natDigits 1, natDigits 2, intDigits (Int.ofNat 3)] = _
    simp [joinFields, intDigits, natDigits, digitChar]
  rw [this]; decide


end Dynetx
