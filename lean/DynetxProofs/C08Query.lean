import DynetxProofs.Properties
import DynetxProofs.Q1
import DynetxProofs.Q2
/-
  C08, query half: on a graph created with edge_removal=False every snapshot query of C02 follows the
  accumulative presence of `C08_presence` (first accepted add ≤ t ≤ largest accepted t of the graph),
  and the flattened queries (`t = None`) report every pair that was ever accepted.

  Composition only: each query is rewritten with its C02 theorem (Q1/Q2, valid for any graph or under the
  node invariant, which `run_nodeInv` proves for both modes) and `has_interaction` with `C08_presence`.
  Where a C02 theorem asks for `WF g` (accumulative graphs are not `WF`: the timeline is not the presence
  set) the variant needed here is re-proved from the distinct-keys half of `AccInv` (`q1_run_keys`);
  these are the `c08q_*_of_keys` lemmas.
-/
namespace Dynetx

/-! ## the accumulative presence, at an instant and flattened -/

/-- right-hand side of `C08_presence` for `some x` (verbatim), of the flattened view (`everLogged`) for
    `none` -/
def c08q_accAt (d : Bool) (log : List Accepted) (a b : Node) : Option Int → Prop
  | none => everLogged d log a b
  | some x => ∃ t0 m, firstLogged d log a b = some t0 ∧ maxList (log.map (·.2.2.1)) = some m ∧ t0 ≤ x ∧ x ≤ m

theorem c08q_accAt_some (d : Bool) (log : List Accepted) (a b : Node) (x : Int) :
    c08q_accAt d log a b (some x) ↔
      ∃ t0 m, firstLogged d log a b = some t0 ∧ maxList (log.map (·.2.2.1)) = some m ∧ t0 ≤ x ∧ x ≤ m :=
  Iff.rfl

theorem c08q_accAt_none (d : Bool) (log : List Accepted) (a b : Node) :
    c08q_accAt d log a b none ↔ everLogged d log a b := Iff.rfl

/-- on undirected graphs the accumulative presence does not depend on the endpoint order -/
theorem c08q_accAt_symm (log : List Accepted) (a b : Node) (t : Option Int) :
    c08q_accAt false log a b t ↔ c08q_accAt false log b a t := by
  have hk : ∀ (s : Accepted), sameKey false s.1 s.2.1 a b = sameKey false s.1 s.2.1 b a :=
    fun s => sameKey_swap_undirected _ _ _ _
  cases t with
  | none =>
    simp only [c08q_accAt, everLogged, hk]
  | some x =>
    simp only [c08q_accAt]
    rw [firstLogged_congr (d := false) (log := log) (a := a) (b := b) (a' := b) (b' := a)
      (by simp [sameKey])]

/-- flattened presence in accumulative mode, from the invariant: the stored pairs are the logged pairs -/
theorem c08q_flat_of_accInv {g : Graph} {log : List Accepted} (h : AccInv g log) (a b : Node) :
    g.hasInteraction a b none = true ↔ everLogged g.directed log a b := by
  rw [hasInteraction_flat_iff]
  constructor
  · rintro ⟨e, he, hk⟩
    obtain ⟨_, hf⟩ := h.first e he
    unfold firstLogged at hf
    cases hfind : List.find? (fun s => sameKey g.directed s.1 s.2.1 e.u e.v) log with
    | none => rw [hfind] at hf; cases hf
    | some s =>
      have hs := List.mem_of_find?_eq_some hfind
      have hk' : sameKey g.directed s.1 s.2.1 e.u e.v = true := by simpa using List.find?_some hfind
      exact ⟨s, hs, sameKey_trans hk' hk⟩
  · rintro ⟨s, hs, hk⟩
    obtain ⟨e, he, hk'⟩ := h.logged s hs
    exact ⟨e, he, sameKey_trans hk' hk⟩

/-- `C08_presence` and its flattened companion in one statement -/
theorem c08q_has_iff (d : Bool) (ops : List Op) (a b : Node) (t : Option Int) :
    ((Graph.empty d false).run ops).1.hasInteraction a b t = true ↔
      c08q_accAt d ((Graph.empty d false).runLog ops) a b t := by
  cases t with
  | some x => exact C08_presence d ops a b x
  | none =>
    obtain ⟨_, r2, r3, _⟩ := run_accInv (Graph.empty d false) rfl [] (AccInv.empty d) ops
    have inv : AccInv ((Graph.empty d false).run ops).1 ((Graph.empty d false).runLog ops) := by
      simpa using r3
    have := c08q_flat_of_accInv inv a b
    rw [r2] at this
    exact this

/-- C08 (flattened presence): `has_interaction(a,b)` without `t` holds iff an add of the pair was accepted -/
theorem C08_flat (d : Bool) (ops : List Op) (a b : Node) :
    ((Graph.empty d false).run ops).1.hasInteraction a b none = true ↔
      everLogged d ((Graph.empty d false).runLog ops) a b :=
  c08q_has_iff d ops a b none

/-! ## the invariants of accumulative histories that the C02 theorems need -/

/-- `run_nodeInv` (Q1) is stated for any start graph and any mode; this is its accumulative instance -/
theorem c08q_run_nodeInv (d : Bool) (ops : List Op) : NodeInv ((Graph.empty d false).run ops).1 :=
  run_nodeInv _ (NodeInv.empty d false) ops

theorem c08q_run_q2inv (d : Bool) (ops : List Op) : q2_NodeInv ((Graph.empty d false).run ops).1 :=
  ⟨(c08q_run_nodeInv d ops).endpoints, (c08q_run_nodeInv d ops).nodup⟩

theorem c08q_run_keys (d : Bool) (ops : List Op) : q1_Keys ((Graph.empty d false).run ops).1 :=
  q1_run_keys d false ops

theorem c08q_run_directed (d : Bool) (ops : List Op) : ((Graph.empty d false).run ops).1.directed = d :=
  q1_run_directed d false ops

/-! ### every node is an endpoint of a stored pair (needed for `nodes()` / `has_node(n)` without `t`) -/

/-- histories only use the add family, so `_node` holds nothing but endpoints of stored pairs -/
structure c08q_Cov (g : Graph) : Prop where
  cov : ∀ n, n ∈ g.nodes.map (·.1) → ∃ e ∈ g.edges, e.u = n ∨ e.v = n

theorem c08q_cov_empty (d r : Bool) : c08q_Cov (Graph.empty d r) := by
  constructor; intro n hn; cases hn

theorem c08q_cov_step {g g' : Graph} (h : c08q_Cov g) (u v : Node)
    (hn : g'.nodes = g.nodes ∨ (g'.nodes = ensureNode (ensureNode g.nodes u) v ∧
      ∃ e ∈ g'.edges, (e.u = u ∧ e.v = v) ∨ (e.u = v ∧ e.v = u)))
    (he : ∀ e ∈ g.edges, ∃ e' ∈ g'.edges, e'.u = e.u ∧ e'.v = e.v) : c08q_Cov g' := by
  constructor
  intro n hnn
  have old : n ∈ g.nodes.map (·.1) → ∃ e ∈ g'.edges, e.u = n ∨ e.v = n := by
    intro h1
    obtain ⟨e, hem, hor⟩ := h.cov n h1
    obtain ⟨e', hem', hu, hv⟩ := he e hem
    exact ⟨e', hem', by rw [hu, hv]; exact hor⟩
  rcases hn with hn | ⟨hn, e, hem, hor⟩
  · rw [hn] at hnn; exact old hnn
  · rw [hn, q1_ensureNode_mem, q1_ensureNode_mem] at hnn
    rcases hnn with (h1 | h1) | h1
    · exact old h1
    · subst h1
      rcases hor with ⟨a, _⟩ | ⟨_, b⟩
      · exact ⟨e, hem, Or.inl a⟩
      · exact ⟨e, hem, Or.inr b⟩
    · subst h1
      rcases hor with ⟨_, b⟩ | ⟨a, _⟩
      · exact ⟨e, hem, Or.inr b⟩
      · exact ⟨e, hem, Or.inl a⟩

theorem c08q_cov_addNew {g : Graph} (h : c08q_Cov g) (u v : Node) (t0 t1 : Int) (eR : Option Int) :
    c08q_Cov (g.addNew u v t0 t1 eR) := by
  refine c08q_cov_step h u v (Or.inr ⟨q1_addNew_nodes .., ?_⟩) ?_
  · refine ⟨{ u := u, v := v, tl := [(t0, t1)] }, ?_, Or.inl ⟨rfl, rfl⟩⟩
    rw [addNew_edges]; exact List.mem_append_right _ (List.mem_singleton.mpr rfl)
  · intro e he
    exact ⟨e, by rw [addNew_edges]; exact List.mem_append_left _ he, rfl, rfl⟩

theorem c08q_cov_addCovered {g : Graph} (h : c08q_Cov g) (u v : Node) (t1 b : Int) (eR : Option Int) :
    c08q_Cov (g.addCovered u v t1 b eR) := by
  refine c08q_cov_step h u v (Or.inl (q1_addCovered_nodes ..)) ?_
  intro e he
  exact ⟨e, by rw [addCovered_edges]; exact he, rfl, rfl⟩

theorem c08q_mapTl_image {g : Graph} (u v : Node) (tl : List Span) {e : Edge} (he : e ∈ g.edges) :
    ∃ e' ∈ mapTl g u v tl, e'.u = e.u ∧ e'.v = e.v := by
  refine ⟨_, mem_mapTl.mpr ⟨e, he, rfl⟩, ?_⟩
  split <;> exact ⟨rfl, rfl⟩

/-- the three branches that rewrite the timeline of an existing pair -/
theorem c08q_cov_mapTl {g g' : Graph} (h : c08q_Cov g) (u v : Node) (tl : List Span) {ed : Edge}
    (hf : g.findEdge u v = some ed) (hn : g'.nodes = ensureNode (ensureNode g.nodes u) v)
    (he : g'.edges = mapTl g u v tl) : c08q_Cov g' := by
  obtain ⟨hem, hk⟩ := findEdge_some hf
  refine c08q_cov_step h u v (Or.inr ⟨hn, ?_⟩) ?_
  · obtain ⟨e', he', hu, hv⟩ := c08q_mapTl_image (g := g) u v tl hem
    refine ⟨e', by rw [he]; exact he', ?_⟩
    rw [hu, hv]
    rcases (q1_key_iff _ _ _ _ _).mp hk with ⟨a, b⟩ | ⟨_, a, b⟩
    · exact Or.inl ⟨a, b⟩
    · exact Or.inr ⟨b, a⟩
  · intro e hem'
    rw [he]; exact c08q_mapTl_image u v tl hem'

theorem c08q_cov_addAccum {g : Graph} (h : c08q_Cov g) {u v : Node} {ed : Edge}
    (hf : g.findEdge u v = some ed) (t0 a b : Int) (rest : List Span) :
    c08q_Cov (g.addAccum u v t0 a b rest) :=
  c08q_cov_mapTl h u v _ hf (q1_addAccum_nodes ..) (addAccum_edges ..)

theorem c08q_cov_addExtend {g : Graph} (h : c08q_Cov g) {u v : Node} {ed : Edge}
    (hf : g.findEdge u v = some ed) (t0 t1 a b : Int) (rest : List Span) (eR : Option Int) :
    c08q_Cov (g.addExtend u v t0 t1 a b rest eR) :=
  c08q_cov_mapTl h u v _ hf (q1_addExtend_nodes ..) (addExtend_edges ..)

theorem c08q_cov_addAppend {g : Graph} (h : c08q_Cov g) {u v : Node} {ed : Edge}
    (hf : g.findEdge u v = some ed) (t0 t1 a b : Int) (rest : List Span) (eR : Option Int) :
    c08q_Cov (g.addAppend u v t0 t1 a b rest eR) :=
  c08q_cov_mapTl h u v _ hf (q1_addAppend_nodes ..) (addAppend_edges ..)

/-- `add_interaction`, every branch, both modes, both classes -/
theorem c08q_addInteraction_cov (g : Graph) (h : c08q_Cov g) (u v : Node) (t e : Option Int) :
    c08q_Cov (g.addInteraction u v t e).1 := by
  unfold Graph.addInteraction
  repeat' split
  all_goals first
    | exact h
    | exact c08q_cov_addNew h ..
    | exact c08q_cov_addCovered h ..
    | exact c08q_cov_addAccum h (by assumption) ..
    | exact c08q_cov_addExtend h (by assumption) ..
    | exact c08q_cov_addAppend h (by assumption) ..

theorem c08q_addFromGo_cov (g : Graph) (h : c08q_Cov g) (es : List (Node × Node)) (t e : Option Int) :
    c08q_Cov (g.addFromGo es t e).1 := by
  induction es generalizing g with
  | nil => exact h
  | cons p rest ih =>
    obtain ⟨u, v⟩ := p
    have h1 := c08q_addInteraction_cov g h u v t e
    unfold Graph.addFromGo
    split
    · rename_i g' hres
      rw [hres] at h1
      exact ih g' h1
    · rename_i g' err hres
      rw [hres] at h1
      exact h1

theorem c08q_step_cov (g : Graph) (h : c08q_Cov g) (op : Op) : c08q_Cov (g.step op).1 := by
  unfold Graph.step Graph.addInteractionsFrom
  cases op.t with
  | none => exact h
  | some t0 => exact c08q_addFromGo_cov g h op.pairs (some t0) op.e

theorem c08q_run_cov (g : Graph) (h : c08q_Cov g) (ops : List Op) : c08q_Cov (g.run ops).1 := by
  induction ops generalizing g with
  | nil => exact h
  | cons op rest ih => exact ih (g.step op).1 (c08q_step_cov g h op)

/-- without `t`, `nodes()` lists exactly the endpoints of the stored pairs -/
theorem c08q_nodeList_iff {g : Graph} (hn : NodeInv g) (hc : c08q_Cov g) (n : Node) :
    n ∈ g.nodeList ↔ ∃ m, g.hasInteraction n m none = true ∨ g.hasInteraction m n none = true := by
  constructor
  · intro h
    obtain ⟨e, he, hor⟩ := hc.cov n h
    have hp : g.hasInteraction e.u e.v none = true :=
      (hasInteraction_flat_iff g e.u e.v).mpr ⟨e, he, sameKey_refl _ _ _⟩
    rcases hor with rfl | rfl
    · exact ⟨e.v, Or.inl hp⟩
    · exact ⟨e.u, Or.inr hp⟩
  · rintro ⟨m, h1 | h1⟩
    · exact (q1_hasNodeFlat_iff g n).mp (q1_node_of_flat hn h1).1
    · exact (q1_hasNodeFlat_iff g n).mp (q1_node_of_flat hn h1).2

/-! ### the `WF`-free variants of the C02 cardinality / no-duplicate theorems (from distinct keys) -/

theorem c08q_neighbors_nodup_of_keys {g : Graph} (hk : q1_Keys g) (n : Node) (t : Option Int) :
    (g.neighbors n t).Nodup :=
  List.Pairwise.filter _ (q1_succs_nodup_of_keys hk n)

theorem c08q_predecessors_nodup_of_keys {g : Graph} (hk : q1_Keys g) (n : Node) (t : Option Int) :
    (g.predecessors n t).Nodup :=
  List.Pairwise.filter _ (q1_preds_nodup_of_keys hk n)

/-- `C02_outDegree_card` with `WF` replaced by distinct keys -/
theorem c08q_outDegree_card_of_keys {g : Graph} (hk : q1_Keys g) (n : Node) (t : Option Int)
    (l : List Node) (hl : l.Nodup) (hm : ∀ m, m ∈ l ↔ g.hasInteraction n m t = true) :
    g.outDegree n t = l.length := by
  unfold Graph.outDegree
  apply List.Perm.length_eq
  rw [List.perm_ext_iff_of_nodup (c08q_neighbors_nodup_of_keys hk n t) hl]
  intro m
  rw [C02_neighbors, hm]

/-- `C02_inDegree_card` with `WF` replaced by distinct keys -/
theorem c08q_inDegree_card_of_keys {g : Graph} (hk : q1_Keys g) (hd : g.directed = true) (n : Node)
    (t : Option Int) (l : List Node) (hl : l.Nodup) (hm : ∀ m, m ∈ l ↔ g.hasInteraction m n t = true) :
    g.inDegree n t = l.length := by
  unfold Graph.inDegree
  apply List.Perm.length_eq
  rw [List.perm_ext_iff_of_nodup (c08q_predecessors_nodup_of_keys hk n t) hl]
  intro m
  rw [C02_predecessors g hd, hm]

/-- `q2_go_pairwise` with `WF` replaced by distinct keys -/
theorem c08q_go_pairwise_of_keys {g : Graph} (hk : q1_Keys g) (t : Option Int) (ns seen : List Node)
    (hns : ns.Nodup) :
    (g.interactionsGo t ns seen).Pairwise (fun p q => ¬ (sameKey false p.1 p.2 q.1 q.2 = true)) := by
  induction ns generalizing seen with
  | nil => simp [Graph.interactionsGo]
  | cons n rest ih =>
    rw [List.nodup_cons] at hns
    unfold Graph.interactionsGo
    rw [List.pairwise_append]
    refine ⟨?_, ih (n :: seen) hns.2, ?_⟩
    · rw [List.pairwise_map]
      refine ((q1_succs_nodup_of_keys hk n).filter _).imp ?_
      intro a b hab hkk
      simp only [sameKey] at hkk
      grind
    · intro p hp q hq
      obtain ⟨m, _, rfl⟩ := List.mem_map.mp hp
      obtain ⟨a, b⟩ := q
      obtain ⟨ha, _, hb⟩ := q2_go_mem g t rest (n :: seen) a b hq
      have h1 : a ≠ n := fun hc => hns.1 (hc ▸ ha)
      have h2 : b ≠ n := fun hc => hb (hc ▸ List.mem_cons_self)
      simp only [sameKey]
      grind

/-- `C02_interactions_once` with `WF` replaced by distinct keys -/
theorem c08q_interactions_once_of_keys {g : Graph} (hk : q1_Keys g) (hn : q2_NodeInv g) (t : Option Int) :
    (g.interactions none t).Pairwise (fun p q => ¬ (sameKey false p.1 p.2 q.1 q.2 = true)) :=
  c08q_go_pairwise_of_keys hk t _ [] hn.nodup

theorem c08q_outInteractions_nodup_of_keys {g : Graph} (hk : q1_Keys g) (hn : q2_NodeInv g)
    (t : Option Int) : (g.outInteractions none t).Nodup :=
  q2_nodup_flatMap_left hn.nodup (fun n => g.neighbors n t) (fun n => c08q_neighbors_nodup_of_keys hk n t)

theorem c08q_inInteractions_nodup_of_keys {g : Graph} (hk : q1_Keys g) (hn : q2_NodeInv g)
    (t : Option Int) : (g.inInteractions none t).Nodup :=
  q2_nodup_flatMap_right hn.nodup (fun n => g.predecessors n t)
    (fun n => c08q_predecessors_nodup_of_keys hk n t)

/-! ## the queries, for `t` given or not (`t : Option Int`) -/

section at_
variable (d : Bool) (ops : List Op)

theorem c08q_neighbors_at (u v : Node) (t : Option Int) :
    v ∈ ((Graph.empty d false).run ops).1.neighbors u t ↔
      c08q_accAt d ((Graph.empty d false).runLog ops) u v t := by
  rw [C02_neighbors, c08q_has_iff]

theorem c08q_neighbors_nodup (u : Node) (t : Option Int) :
    (((Graph.empty d false).run ops).1.neighbors u t).Nodup :=
  c08q_neighbors_nodup_of_keys (c08q_run_keys d ops) u t

theorem c08q_predecessors_at (hd : d = true) (u v : Node) (t : Option Int) :
    u ∈ ((Graph.empty d false).run ops).1.predecessors v t ↔
      c08q_accAt d ((Graph.empty d false).runLog ops) u v t := by
  rw [C02_predecessors _ (by rw [c08q_run_directed]; exact hd), c08q_has_iff]

theorem c08q_predecessors_nodup (v : Node) (t : Option Int) :
    (((Graph.empty d false).run ops).1.predecessors v t).Nodup :=
  c08q_predecessors_nodup_of_keys (c08q_run_keys d ops) v t

theorem c08q_nodesAt_at (n : Node) (t : Option Int) :
    n ∈ ((Graph.empty d false).run ops).1.nodesAt t ↔
      ∃ m, c08q_accAt d ((Graph.empty d false).runLog ops) n m t ∨
        c08q_accAt d ((Graph.empty d false).runLog ops) m n t := by
  have key : (n ∈ ((Graph.empty d false).run ops).1.nodesAt t ↔
      ∃ m, ((Graph.empty d false).run ops).1.hasInteraction n m t = true ∨
        ((Graph.empty d false).run ops).1.hasInteraction m n t = true) := by
    cases t with
    | some x => exact C02_nodesAt_presence (c08q_run_nodeInv d ops) n x
    | none =>
      exact c08q_nodeList_iff (c08q_run_nodeInv d ops) (c08q_run_cov _ (c08q_cov_empty d false) ops) n
  rw [key]
  simp only [c08q_has_iff]

theorem c08q_nodesAt_nodup (t : Option Int) : (((Graph.empty d false).run ops).1.nodesAt t).Nodup :=
  C02_nodesAt_nodup (c08q_run_nodeInv d ops) t

theorem c08q_hasNode_at (n : Node) (t : Option Int) :
    ((Graph.empty d false).run ops).1.hasNode n t = true ↔
      ∃ m, c08q_accAt d ((Graph.empty d false).runLog ops) n m t ∨
        c08q_accAt d ((Graph.empty d false).runLog ops) m n t := by
  rw [← c08q_nodesAt_at]
  cases t with
  | some x => exact C02_hasNode _ n x
  | none => exact C02_hasNode_none _ n

/-- degree = number of distinct partners present (undirected; a self-loop is one partner, known finding
    D14), resp. number of distinct out-arcs plus number of distinct in-arcs present (directed) -/
theorem c08q_degree_at (n : Node) (t : Option Int) (lo li : List Node) (hlo : lo.Nodup) (hli : li.Nodup)
    (hmo : ∀ m, m ∈ lo ↔ c08q_accAt d ((Graph.empty d false).runLog ops) n m t)
    (hmi : ∀ m, m ∈ li ↔ c08q_accAt d ((Graph.empty d false).runLog ops) m n t) :
    ((Graph.empty d false).run ops).1.degree n t = if d then lo.length + li.length else lo.length := by
  have hk := c08q_run_keys d ops
  have hdir := c08q_run_directed d ops
  have ho := c08q_outDegree_card_of_keys hk n t lo hlo (fun m => by rw [hmo, c08q_has_iff])
  cases d with
  | false =>
    rw [C02_degree_undirected _ hdir, ← C02_outDegree, ho]; rfl
  | true =>
    have hi := c08q_inDegree_card_of_keys hk hdir n t li hli (fun m => by rw [hmi, c08q_has_iff])
    rw [C02_degree_directed _ hdir, ho, hi]; rfl

theorem c08q_numberOfNodes_at (t : Option Int) (l : List Node) (hl : l.Nodup)
    (hm : ∀ n, n ∈ l ↔ ∃ m, c08q_accAt d ((Graph.empty d false).runLog ops) n m t ∨
      c08q_accAt d ((Graph.empty d false).runLog ops) m n t) :
    ((Graph.empty d false).run ops).1.numberOfNodes t = l.length := by
  unfold Graph.numberOfNodes
  apply List.Perm.length_eq
  rw [List.perm_ext_iff_of_nodup (c08q_nodesAt_nodup d ops t) hl]
  intro n
  rw [c08q_nodesAt_at, hm]

/-- `interactions()`: a listed pair is present (both classes) -/
theorem c08q_interactions_sound (u v : Node) (t : Option Int)
    (hm : (u, v) ∈ ((Graph.empty d false).run ops).1.interactions none t) :
    c08q_accAt d ((Graph.empty d false).runLog ops) u v t :=
  (c08q_has_iff d ops u v t).mp (C02_interactions_mem _ t u v hm)

/-- no pair is listed twice, in either orientation (both classes) -/
theorem c08q_interactions_once (t : Option Int) :
    (((Graph.empty d false).run ops).1.interactions none t).Pairwise
      (fun p q => ¬ (sameKey false p.1 p.2 q.1 q.2 = true)) :=
  c08q_interactions_once_of_keys (c08q_run_keys d ops) (c08q_run_q2inv d ops) t

theorem c08q_outInteractions_at (u v : Node) (t : Option Int) :
    (u, v) ∈ ((Graph.empty d false).run ops).1.outInteractions none t ↔
      c08q_accAt d ((Graph.empty d false).runLog ops) u v t := by
  rw [C02_outInteractions_directed (c08q_run_q2inv d ops), c08q_has_iff]

theorem c08q_inInteractions_at (hd : d = true) (u v : Node) (t : Option Int) :
    (u, v) ∈ ((Graph.empty d false).run ops).1.inInteractions none t ↔
      c08q_accAt d ((Graph.empty d false).runLog ops) u v t := by
  rw [C02_inInteractions_directed (c08q_run_q2inv d ops) (by rw [c08q_run_directed]; exact hd),
    c08q_has_iff]

end at_

/-- undirected class: a pair is listed by `interactions()` in one of the two orientations iff present -/
theorem c08q_interactions_at (ops : List Op) (u v : Node) (t : Option Int) :
    ((u, v) ∈ ((Graph.empty false false).run ops).1.interactions none t ∨
      (v, u) ∈ ((Graph.empty false false).run ops).1.interactions none t) ↔
      c08q_accAt false ((Graph.empty false false).runLog ops) u v t := by
  rw [← C02_interactions_iff (c08q_run_q2inv false ops) (c08q_run_directed false ops), c08q_has_iff]

/-! ## C08 — the snapshot queries follow the accumulative presence -/

/-- C08 (neighbors): on an accumulative graph `neighbors(u, t)` (`successors(u, t)` on DynDiGraph) lists,
    without repetition, exactly the `v` whose pair with `u` (the arc `u→v` on DynDiGraph, either
    orientation on DynGraph: `firstLogged d`) was first accepted at some `t0 ≤ t` and `t` is at most the
    largest accepted `t` of the graph — whatever vanishing times or repeated adds were supplied. -/
theorem C08_neighbors (d : Bool) (ops : List Op) (u v : Node) (t : Int) :
    let g := ((Graph.empty d false).run ops).1
    let log := (Graph.empty d false).runLog ops
    (v ∈ g.neighbors u (some t) ↔
      ∃ t0 m, firstLogged d log u v = some t0 ∧ maxList (log.map (·.2.2.1)) = some m ∧ t0 ≤ t ∧ t ≤ m) ∧
    (g.neighbors u (some t)).Nodup := by
  intro g log
  exact ⟨c08q_neighbors_at d ops u v (some t), c08q_neighbors_nodup d ops u (some t)⟩

/-- C08 (predecessors, DynDiGraph): `predecessors(v, t)` lists, without repetition, the `u` whose arc
    `u→v` is present at `t` in the accumulative sense. -/
theorem C08_predecessors (ops : List Op) (u v : Node) (t : Int) :
    let g := ((Graph.empty true false).run ops).1
    let log := (Graph.empty true false).runLog ops
    (u ∈ g.predecessors v (some t) ↔
      ∃ t0 m, firstLogged true log u v = some t0 ∧ maxList (log.map (·.2.2.1)) = some m ∧ t0 ≤ t ∧ t ≤ m) ∧
    (g.predecessors v (some t)).Nodup := by
  intro g log
  exact ⟨c08q_predecessors_at true ops rfl u v (some t), c08q_predecessors_nodup true ops v (some t)⟩

/-- C08 (nodes): `n` is in `nodes(t)` iff some pair containing `n` (as first or second endpoint) is present
    at `t` in the accumulative sense; the list has no repetition. -/
theorem C08_nodesAt (d : Bool) (ops : List Op) (n : Node) (t : Int) :
    let g := ((Graph.empty d false).run ops).1
    let log := (Graph.empty d false).runLog ops
    (n ∈ g.nodesAt (some t) ↔
      ∃ k, (∃ t0 m, firstLogged d log n k = some t0 ∧ maxList (log.map (·.2.2.1)) = some m ∧ t0 ≤ t ∧ t ≤ m) ∨
           (∃ t0 m, firstLogged d log k n = some t0 ∧ maxList (log.map (·.2.2.1)) = some m ∧ t0 ≤ t ∧ t ≤ m)) ∧
    (g.nodesAt (some t)).Nodup := by
  intro g log
  exact ⟨c08q_nodesAt_at d ops n (some t), c08q_nodesAt_nodup d ops (some t)⟩

/-- C08 (has_node): `has_node(n, t)` iff some pair containing `n` is present at `t`. -/
theorem C08_hasNode (d : Bool) (ops : List Op) (n : Node) (t : Int) :
    let g := ((Graph.empty d false).run ops).1
    let log := (Graph.empty d false).runLog ops
    g.hasNode n (some t) = true ↔
      ∃ k, (∃ t0 m, firstLogged d log n k = some t0 ∧ maxList (log.map (·.2.2.1)) = some m ∧ t0 ≤ t ∧ t ≤ m) ∨
           (∃ t0 m, firstLogged d log k n = some t0 ∧ maxList (log.map (·.2.2.1)) = some m ∧ t0 ≤ t ∧ t ≤ m) := by
  intro g log
  exact c08q_hasNode_at d ops n (some t)

/-- C08 (degree): `degree(n, t)` is the number of distinct `k` whose pair with `n` is present at `t`
    (DynGraph; `n` itself counts once when the loop `n–n` is present, known finding D14), resp. the number
    of distinct out-arcs `n→k` plus the number of distinct in-arcs `k→n` present at `t` (DynDiGraph):
    whatever duplicate-free lists `lo`, `li` enumerate them, these are the counts.  (`neighbors(n,t)` and
    `predecessors(n,t)` are such lists, by `C08_neighbors` / `C08_predecessors`.) -/
theorem C08_degree (d : Bool) (ops : List Op) (n : Node) (t : Int) :
    let g := ((Graph.empty d false).run ops).1
    let log := (Graph.empty d false).runLog ops
    ∀ lo li : List Node, lo.Nodup → li.Nodup →
      (∀ k, k ∈ lo ↔
        ∃ t0 m, firstLogged d log n k = some t0 ∧ maxList (log.map (·.2.2.1)) = some m ∧ t0 ≤ t ∧ t ≤ m) →
      (∀ k, k ∈ li ↔
        ∃ t0 m, firstLogged d log k n = some t0 ∧ maxList (log.map (·.2.2.1)) = some m ∧ t0 ≤ t ∧ t ≤ m) →
      g.degree n (some t) = if d then lo.length + li.length else lo.length := by
  intro g log lo li hlo hli hmo hmi
  exact c08q_degree_at d ops n (some t) lo li hlo hli hmo hmi

/-- C08 (number_of_nodes): `number_of_nodes(t)` is the number of distinct nodes that belong to a pair
    present at `t`. -/
theorem C08_numberOfNodes (d : Bool) (ops : List Op) (t : Int) :
    let g := ((Graph.empty d false).run ops).1
    let log := (Graph.empty d false).runLog ops
    ∀ l : List Node, l.Nodup →
      (∀ n, n ∈ l ↔
        ∃ k, (∃ t0 m, firstLogged d log n k = some t0 ∧ maxList (log.map (·.2.2.1)) = some m ∧ t0 ≤ t ∧ t ≤ m) ∨
             (∃ t0 m, firstLogged d log k n = some t0 ∧ maxList (log.map (·.2.2.1)) = some m ∧ t0 ≤ t ∧ t ≤ m)) →
      g.numberOfNodes (some t) = l.length := by
  intro g log l hl hm
  exact c08q_numberOfNodes_at d ops (some t) l hl hm

/-- C08 (interactions, DynGraph): a pair is listed by `interactions(t=t)` — in exactly one of the two
    orientations and exactly once — iff it is present at `t` in the accumulative sense. -/
theorem C08_interactions (ops : List Op) (u v : Node) (t : Int) :
    let g := ((Graph.empty false false).run ops).1
    let log := (Graph.empty false false).runLog ops
    (((u, v) ∈ g.interactions none (some t) ∨ (v, u) ∈ g.interactions none (some t)) ↔
      ∃ t0 m, firstLogged false log u v = some t0 ∧ maxList (log.map (·.2.2.1)) = some m ∧ t0 ≤ t ∧ t ≤ m) ∧
    (g.interactions none (some t)).Pairwise (fun p q => ¬ (sameKey false p.1 p.2 q.1 q.2 = true)) ∧
    (g.interactions none (some t)).Nodup := by
  intro g log
  exact ⟨c08q_interactions_at ops u v (some t), c08q_interactions_once false ops (some t),
    q2_nodup_of_pairwise_key (c08q_interactions_once false ops (some t))⟩

/-- C08 (out_interactions, DynDiGraph): the arcs listed at `t` are exactly the arcs present at `t` in the
    accumulative sense, each once. -/
theorem C08_outInteractions (ops : List Op) (u v : Node) (t : Int) :
    let g := ((Graph.empty true false).run ops).1
    let log := (Graph.empty true false).runLog ops
    ((u, v) ∈ g.outInteractions none (some t) ↔
      ∃ t0 m, firstLogged true log u v = some t0 ∧ maxList (log.map (·.2.2.1)) = some m ∧ t0 ≤ t ∧ t ≤ m) ∧
    (g.outInteractions none (some t)).Nodup := by
  intro g log
  exact ⟨c08q_outInteractions_at true ops u v (some t),
    c08q_outInteractions_nodup_of_keys (c08q_run_keys true ops) (c08q_run_q2inv true ops) (some t)⟩

/-- C08 (in_interactions, DynDiGraph) -/
theorem C08_inInteractions (ops : List Op) (u v : Node) (t : Int) :
    let g := ((Graph.empty true false).run ops).1
    let log := (Graph.empty true false).runLog ops
    ((u, v) ∈ g.inInteractions none (some t) ↔
      ∃ t0 m, firstLogged true log u v = some t0 ∧ maxList (log.map (·.2.2.1)) = some m ∧ t0 ≤ t ∧ t ≤ m) ∧
    (g.inInteractions none (some t)).Nodup := by
  intro g log
  exact ⟨c08q_inInteractions_at true ops rfl u v (some t),
    c08q_inInteractions_nodup_of_keys (c08q_run_keys true ops) (c08q_run_q2inv true ops) (some t)⟩

/-- C08 (flattened view): with `t = None` every query reports the pairs for which some add was ever
    accepted (`everLogged`: unordered on DynGraph, ordered on DynDiGraph), without repetition. -/
theorem C08_queries_none (d : Bool) (ops : List Op) :
    let g := ((Graph.empty d false).run ops).1
    let log := (Graph.empty d false).runLog ops
    (∀ u v, g.hasInteraction u v none = true ↔ everLogged d log u v) ∧
    (∀ u v, v ∈ g.neighbors u none ↔ everLogged d log u v) ∧
    (d = true → ∀ u v, u ∈ g.predecessors v none ↔ everLogged d log u v) ∧
    (∀ n, n ∈ g.nodesAt none ↔ ∃ k, everLogged d log n k ∨ everLogged d log k n) ∧
    (∀ n, g.hasNode n none = true ↔ ∃ k, everLogged d log n k ∨ everLogged d log k n) ∧
    (∀ n (lo li : List Node), lo.Nodup → li.Nodup → (∀ k, k ∈ lo ↔ everLogged d log n k) →
      (∀ k, k ∈ li ↔ everLogged d log k n) →
      g.degree n none = if d then lo.length + li.length else lo.length) ∧
    (∀ l : List Node, l.Nodup → (∀ n, n ∈ l ↔ ∃ k, everLogged d log n k ∨ everLogged d log k n) →
      g.numberOfNodes none = l.length) ∧
    (∀ u v, (u, v) ∈ g.interactions none none → everLogged d log u v) ∧
    (d = false → ∀ u v,
      ((u, v) ∈ g.interactions none none ∨ (v, u) ∈ g.interactions none none) ↔ everLogged d log u v) ∧
    (∀ u v, (u, v) ∈ g.outInteractions none none ↔ everLogged d log u v) ∧
    (d = true → ∀ u v, (u, v) ∈ g.inInteractions none none ↔ everLogged d log u v) ∧
    (∀ n, (g.neighbors n none).Nodup ∧ (g.predecessors n none).Nodup) ∧
    (g.nodesAt none).Nodup ∧
    (g.interactions none none).Pairwise (fun p q => ¬ (sameKey false p.1 p.2 q.1 q.2 = true)) ∧
    (g.outInteractions none none).Nodup ∧ (g.inInteractions none none).Nodup := by
  intro g log
  refine ⟨fun u v => c08q_has_iff d ops u v none, fun u v => c08q_neighbors_at d ops u v none,
    fun hd u v => c08q_predecessors_at d ops hd u v none, fun n => c08q_nodesAt_at d ops n none,
    fun n => c08q_hasNode_at d ops n none,
    fun n lo li hlo hli hmo hmi => c08q_degree_at d ops n none lo li hlo hli hmo hmi,
    fun l hl hm => c08q_numberOfNodes_at d ops none l hl hm,
    fun u v hm => c08q_interactions_sound d ops u v none hm, ?_,
    fun u v => c08q_outInteractions_at d ops u v none,
    fun hd u v => c08q_inInteractions_at d ops hd u v none,
    fun n => ⟨c08q_neighbors_nodup d ops n none, c08q_predecessors_nodup d ops n none⟩,
    c08q_nodesAt_nodup d ops none, c08q_interactions_once d ops none,
    c08q_outInteractions_nodup_of_keys (c08q_run_keys d ops) (c08q_run_q2inv d ops) none,
    c08q_inInteractions_nodup_of_keys (c08q_run_keys d ops) (c08q_run_q2inv d ops) none⟩
  intro hd u v
  subst hd
  exact c08q_interactions_at ops u v none

/-! ## the remaining C02 queries (same composition) -/

/-- C08 (all_neighbors): predecessors and successors on DynDiGraph, the partners on DynGraph -/
theorem C08_allNeighbors (d : Bool) (ops : List Op) (n k : Node) (t : Int) :
    let g := ((Graph.empty d false).run ops).1
    let log := (Graph.empty d false).runLog ops
    k ∈ g.allNeighbors n (some t) ↔
      ((∃ t0 m, firstLogged d log k n = some t0 ∧ maxList (log.map (·.2.2.1)) = some m ∧ t0 ≤ t ∧ t ≤ m) ∨
       (∃ t0 m, firstLogged d log n k = some t0 ∧ maxList (log.map (·.2.2.1)) = some m ∧ t0 ≤ t ∧ t ≤ m)) := by
  intro g log
  rw [C02_allNeighbors, c08q_has_iff, c08q_has_iff]
  exact Iff.rfl

/-- C08 (non_neighbors): the other nodes with no pair with `n` present at `t` in either direction -/
theorem C08_nonNeighbors (d : Bool) (ops : List Op) (n k : Node) (t : Int) :
    let g := ((Graph.empty d false).run ops).1
    let log := (Graph.empty d false).runLog ops
    k ∈ g.nonNeighbors n (some t) ↔
      (k ∈ g.nodeList ∧ k ≠ n ∧
        ¬ (∃ t0 m, firstLogged d log k n = some t0 ∧ maxList (log.map (·.2.2.1)) = some m ∧ t0 ≤ t ∧ t ≤ m) ∧
        ¬ (∃ t0 m, firstLogged d log n k = some t0 ∧ maxList (log.map (·.2.2.1)) = some m ∧ t0 ≤ t ∧ t ≤ m)) := by
  intro g log
  rw [C02_nonNeighbors_presence, ← Bool.not_eq_true, ← Bool.not_eq_true, c08q_has_iff, c08q_has_iff]
  exact Iff.rfl

/-- C08 (number_of_interactions(u, v, t)): 1 when the pair is present at `t`, else 0 -/
theorem C08_numberOfInteractions2 (d : Bool) (ops : List Op) (u v : Node) (t : Int) :
    let g := ((Graph.empty d false).run ops).1
    let log := (Graph.empty d false).runLog ops
    (g.numberOfInteractions2 u v (some t) = 1 ↔
      ∃ t0 m, firstLogged d log u v = some t0 ∧ maxList (log.map (·.2.2.1)) = some m ∧ t0 ≤ t ∧ t ≤ m) ∧
    (g.numberOfInteractions2 u v (some t) = 0 ∨ g.numberOfInteractions2 u v (some t) = 1) := by
  intro g log
  have h : g.hasInteraction u v (some t) = true ↔
      c08q_accAt d ((Graph.empty d false).runLog ops) u v (some t) := c08q_has_iff d ops u v (some t)
  refine ⟨Iff.trans ?_ h, ?_⟩ <;> rw [C02_numberOfInteractions2] <;>
    cases g.hasInteraction u v (some t) <;> simp

/-! ### size (handshake) without `WF` -/

theorem c08q_length_in_eq_out_of_keys {g : Graph} (hk : q1_Keys g) (hn : q2_NodeInv g)
    (hd : g.directed = true) (t : Option Int) :
    (g.inInteractions none t).length = (g.outInteractions none t).length := by
  apply List.Perm.length_eq
  rw [List.perm_ext_iff_of_nodup (c08q_inInteractions_nodup_of_keys hk hn t)
    (c08q_outInteractions_nodup_of_keys hk hn t)]
  rintro ⟨u, v⟩
  rw [C02_inInteractions_directed hn hd, C02_outInteractions_directed hn]

/-- `C02_size_directed` with `WF` replaced by distinct keys -/
theorem c08q_size_directed_of_keys {g : Graph} (hk : q1_Keys g) (hn : q2_NodeInv g)
    (hd : g.directed = true) (t : Option Int) : g.size t = (g.outInteractions none t).length := by
  have h1 : g.degreeSum t =
      (g.outInteractions none t).length + (g.inInteractions none t).length := by
    rw [q2_degreeSum_eq, q2_length_out, q2_length_in, ← q2_sum_map_add]
    simp only [Graph.degree, hd, if_true, Graph.nbunch]
  unfold Graph.size
  rw [h1, c08q_length_in_eq_out_of_keys hk hn hd]; omega

/-- `C02_degreeSum_undirected_loops` with `WF` replaced by distinct keys -/
theorem c08q_degreeSum_undirected_loops_of_keys {g : Graph} (hk : q1_Keys g) (hn : q2_NodeInv g)
    (hd : g.directed = false) (t : Option Int) :
    g.degreeSum t + (g.nodeList.filter (fun n => g.hasInteraction n n t)).length =
      2 * (g.interactions none t).length := by
  have hI := c08q_interactions_once_of_keys hk hn t
  have hIn := q2_nodup_of_pairwise_key hI
  have hON := c08q_outInteractions_nodup_of_keys hk hn t
  have hloopsN : ((g.nodeList.filter (fun n => g.hasInteraction n n t)).map (fun n => (n, n))).Nodup := by
    rw [List.Nodup, List.pairwise_map]
    refine (hn.nodup.filter _).imp ?_
    intro a b hab hc; injection hc with h1 _; exact hab h1
  have hloopsM : ∀ u v, (u, v) ∈ (g.nodeList.filter (fun n => g.hasInteraction n n t)).map (fun n => (n, n)) ↔
      (u = v ∧ g.hasInteraction u u t = true) := by
    intro u v
    rw [List.mem_map]
    constructor
    · rintro ⟨n, hnm, heq⟩
      injection heq with h1 h2; subst h1; subst h2
      exact ⟨rfl, (List.mem_filter.mp hnm).2⟩
    · rintro ⟨rfl, hp⟩
      exact ⟨u, List.mem_filter.mpr ⟨q2_has_node_left hn hp, hp⟩, rfl⟩
  have hperm : (g.outInteractions none t ++
        (g.nodeList.filter (fun n => g.hasInteraction n n t)).map (fun n => (n, n))).Perm
      (g.interactions none t ++ (g.interactions none t).map (fun p => (p.2, p.1))) := by
    rw [List.perm_iff_count]
    rintro ⟨u, v⟩
    rw [List.count_append, List.count_append, hON.count, hloopsN.count,
      hIn.count, (q2_swap_nodup hIn).count]
    simp only [C02_outInteractions_directed hn, q2_mem_swap, hloopsM]
    by_cases huv : u = v
    · subst huv
      by_cases hp : g.hasInteraction u u t = true
      · have : (u, u) ∈ g.interactions none t := by
          rcases C02_interactions_complete hn hd t u u hp with h1 | h1 <;> exact h1
        simp [hp, this]
      · have : (u, u) ∉ g.interactions none t := fun hc => hp (C02_interactions_mem g t u u hc)
        simp [hp, this]
    · by_cases hp : g.hasInteraction u v t = true
      · have hne : (u, v) ≠ (v, u) := by
          intro hc; injection hc with e1 _; exact huv e1
        have hnot : ¬ ((u, v) ∈ g.interactions none t ∧ (v, u) ∈ g.interactions none t) := by
          rintro ⟨h1, h2⟩
          rcases q2_pairwise_both hI h1 h2 hne with h3 | h3
          · exact h3 (by simp [sameKey])
          · exact h3 (by simp [sameKey])
        rcases C02_interactions_complete hn hd t u v hp with h1 | h1
        · have : (v, u) ∉ g.interactions none t := fun hc => hnot ⟨h1, hc⟩
          simp [hp, huv, h1, this]
        · have : (u, v) ∉ g.interactions none t := fun hc => hnot ⟨hc, h1⟩
          simp [hp, huv, h1, this]
      · have h1 : (u, v) ∉ g.interactions none t := fun hc => hp (C02_interactions_mem g t u v hc)
        have h2 : (v, u) ∉ g.interactions none t := fun hc =>
          hp (by rw [q2_has_symm hd]; exact C02_interactions_mem g t v u hc)
        simp [hp, huv, h1, h2]
  have h1 : g.degreeSum t = (g.outInteractions none t).length := by
    rw [q2_degreeSum_eq, q2_length_out]
    simp [Graph.degree, hd, Graph.nbunch]
  have := hperm.length_eq
  rw [List.length_append, List.length_append, List.length_map, List.length_map] at this
  omega

/-- C08 (size, DynDiGraph): `size(t)` is the number of arcs present at `t` in the accumulative sense
    (`out_interactions(t=t)` is their duplicate-free list, `C08_outInteractions`) -/
theorem C08_size_directed (ops : List Op) (t : Option Int) :
    let g := ((Graph.empty true false).run ops).1
    g.size t = (g.outInteractions none t).length := by
  intro g
  exact c08q_size_directed_of_keys (c08q_run_keys true ops) (c08q_run_q2inv true ops)
    (c08q_run_directed true ops) t

/-- C08 (size, DynGraph): Σ degree + (number of loops present at `t`) = 2 · (number of pairs listed by
    `interactions(t=t)`, which are the pairs present at `t`, `C08_interactions`); hence, when no loop is
    present at `t`, `size(t)` is the number of pairs present at `t`.  (With loops `size` is
    `(2·pairs − loops) / 2`: a loop adds 1, not 2, to the degree sum — known finding D14.) -/
theorem C08_size_undirected (ops : List Op) (t : Option Int) :
    let g := ((Graph.empty false false).run ops).1
    let log := (Graph.empty false false).runLog ops
    g.degreeSum t + (g.nodeList.filter (fun n => g.hasInteraction n n t)).length =
      2 * (g.interactions none t).length ∧
    g.size t = g.degreeSum t / 2 ∧
    ((∀ n, ¬ c08q_accAt false log n n t) → g.size t = (g.interactions none t).length) := by
  intro g log
  have hs : g.degreeSum t + (g.nodeList.filter (fun n => g.hasInteraction n n t)).length =
      2 * (g.interactions none t).length :=
    c08q_degreeSum_undirected_loops_of_keys (c08q_run_keys false ops) (c08q_run_q2inv false ops)
      (c08q_run_directed false ops) t
  refine ⟨hs, rfl, ?_⟩
  intro hno
  have hnil : g.nodeList.filter (fun n => g.hasInteraction n n t) = [] := by
    rw [List.filter_eq_nil_iff]
    intro n _ hc
    exact hno n ((c08q_has_iff false ops n n t).mp hc)
  rw [hnil] at hs
  show g.degreeSum t / 2 = (g.interactions none t).length
  simp only [List.length_nil] at hs
  omega

/-! ## non-vacuity -/

/-- `1–2` added at 0 with vanishing time 2 (ignored in accumulative mode), `3–4` added at 5 -/
def c08q_demo (d removal : Bool) : Graph :=
  ((Graph.empty d removal).run [Op.add 1 2 (some 0) (some 2), Op.add 3 4 (some 5) none]).1

/-- the vanishing time is ignored: `1–2` is still there at 4 and at 5 (the largest snapshot id), not at 6,
    not before 0; `3–4` only at 5 -/
example : (c08q_demo false false).neighbors 1 (some 4) = [2] ∧
    (c08q_demo false false).neighbors 2 (some 5) = [1] ∧
    (c08q_demo false false).neighbors 1 (some 6) = [] ∧
    (c08q_demo false false).neighbors 1 (some (-1)) = [] ∧
    (c08q_demo false false).neighbors 3 (some 4) = [] ∧
    (c08q_demo false false).neighbors 3 (some 5) = [4] ∧
    (c08q_demo false false).hasInteraction 1 2 (some 4) = true := by decide

example : (c08q_demo false false).nodesAt (some 4) = [1, 2] ∧
    (c08q_demo false false).nodesAt (some 5) = [1, 2, 3, 4] ∧
    (c08q_demo false false).nodesAt none = [1, 2, 3, 4] ∧
    (c08q_demo false false).hasNode 2 (some 4) = true ∧
    (c08q_demo false false).hasNode 3 (some 4) = false ∧
    (c08q_demo false false).degree 1 (some 4) = 1 ∧
    (c08q_demo false false).numberOfNodes (some 4) = 2 ∧
    (c08q_demo false false).interactions none (some 4) = [(1, 2)] ∧
    (c08q_demo false false).interactions none (some 5) = [(1, 2), (3, 4)] ∧
    (c08q_demo false false).interactions none none = [(1, 2), (3, 4)] ∧
    (c08q_demo false false).size (some 5) = 2 := by decide

/-- the log of that history and the two ingredients of the presence condition -/
example : (Graph.empty false false).runLog [Op.add 1 2 (some 0) (some 2), Op.add 3 4 (some 5) none]
      = [(1, 2, 0, 0), (3, 4, 5, 5)] ∧
    firstLogged false [(1, 2, 0, 0), (3, 4, 5, 5)] 2 1 = some 0 ∧
    maxList ([(1, 2, 0, 0), (3, 4, 5, 5)].map (·.2.2.1)) = some 5 := by decide

/-- the same calls on a removal-enabled graph: `1–2` is gone at 4 -/
example : (c08q_demo false true).neighbors 1 (some 4) = [] ∧
    (c08q_demo false true).neighbors 1 (some 1) = [2] := by decide

/-- directed class: successors / predecessors / arc lists -/
example : (c08q_demo true false).neighbors 1 (some 4) = [2] ∧
    (c08q_demo true false).neighbors 2 (some 4) = [] ∧
    (c08q_demo true false).predecessors 2 (some 4) = [1] ∧
    (c08q_demo true false).degree 2 (some 4) = 1 ∧
    (c08q_demo true false).outInteractions none (some 4) = [(1, 2)] ∧
    (c08q_demo true false).inInteractions none (some 5) = [(1, 2), (3, 4)] ∧
    (c08q_demo true false).size (some 5) = 2 := by decide

/-- known finding D10 is independent of the mode: on an accumulative DynDiGraph `interactions()` drops
    the arc `2→0` because 0 was visited before 2 (this is why `C08_interactions` is stated for DynGraph
    and `C08_outInteractions` / `C08_inInteractions` for DynDiGraph) -/
example :
    let g := ((Graph.empty true false).run [Op.add 0 1 (some 5) none, Op.add 2 0 (some 5) none]).1
    g.interactions none (some 5) = [(0, 1)] ∧ g.outInteractions none (some 5) = [(0, 1), (2, 0)] ∧
    g.hasInteraction 2 0 (some 5) = true := by decide


end Dynetx
