import DynetxModel.Conformity
/-
  C20, clause "sliding_delta_conformity reports, for every snapshot id t with t+delta before the last id, exactly
  delta_conformity(G,t,delta,...) stamped t+delta".

  `Graph.slidingDeltaConformity` is the nested-dictionary accumulation of the code
  (`alpha_attribute_node_to_seq[alpha][attribute][n].append((t + delta, v))`); the theorem says that the series
  stored under (alpha, node) is, in order, the list of `(t + delta, score)` over the qualifying snapshot ids `t`
  whose `delta_conformity` is not `None`, and that the call fails exactly when one of those calls fails.
-/
namespace Dynetx

section assoc
variable {κ γ : Type} [BEq κ] [LawfulBEq κ]

/-- a key-preserving map commutes with the first-match lookup -/
theorem c20s_find_map (c : List (κ × γ)) (f : κ × γ → κ × γ) (hf : ∀ e, (f e).1 = e.1) (k' : κ) :
    (c.map f).find? (fun e => e.1 == k') = (c.find? (fun e => e.1 == k')).map f := by
  induction c with
  | nil => rfl
  | cons e c ih =>
    simp only [List.map_cons, List.find?_cons, hf]
    by_cases hk' : e.1 == k'
    · simp [hk']
    · simp [hk', ih]

/-- `d.get(k)` on an insertion-ordered association list -/
def c20s_get (c : List (κ × γ)) (k : κ) : Option γ := (c.find? (fun e => e.1 == k)).map (·.2)

/-- "update the value under `k` with `upd`, or insert `ins`": the shape of every dictionary write of the sliding driver -/
def c20s_upsert (c : List (κ × γ)) (k : κ) (upd : γ → γ) (ins : γ) : List (κ × γ) :=
  if c.any (fun e => e.1 == k) then c.map (fun e => if e.1 == k then (e.1, upd e.2) else e) else c ++ [(k, ins)]

theorem c20s_get_upsert (c : List (κ × γ)) (k k' : κ) (upd : γ → γ) (ins : γ) :
    c20s_get (c20s_upsert c k upd ins) k' =
      if k' == k then some (match c20s_get c k with | some v => upd v | none => ins) else c20s_get c k' := by
  unfold c20s_upsert c20s_get
  split
  · rename_i hany
    rw [c20s_find_map _ _ (by intro e; split <;> rfl)]
    by_cases hkk : k' == k
    · have hkk' : k' = k := by simpa using hkk
      subst hkk'
      simp only [beq_self_eq_true, if_true]
      obtain ⟨e, he, hek⟩ := List.any_eq_true.mp hany
      cases hf : c.find? (fun e => e.1 == k') with
      | none =>
        have := List.find?_eq_none.mp hf e he
        simp [hek] at this
      | some e' =>
        have := List.find?_some hf
        simp only [Option.map_some]
        simp [this]
    · simp only [hkk, Bool.false_eq_true, if_false]
      cases hf : c.find? (fun e => e.1 == k') with
      | none => rfl
      | some e' =>
        have h1 := List.find?_some hf
        have h1' : e'.1 = k' := by simpa using h1
        have : (e'.1 == k) = false := by
          rw [h1']; simpa using hkk
        simp [this]
  · rename_i hany
    rw [List.find?_append]
    by_cases hkk : k' == k
    · have hkk' : k' = k := by simpa using hkk
      subst hkk'
      have : c.find? (fun e => e.1 == k') = none := by
        rw [List.find?_eq_none]
        intro e he hek
        exact hany (List.any_eq_true.mpr ⟨e, he, hek⟩)
      simp [this]
    · simp only [hkk, Bool.false_eq_true, if_false]
      cases hf : c.find? (fun e => e.1 == k') with
      | none =>
        have : (k == k') = false := by
          have h : ¬ k' = k := by simpa using hkk
          simpa using fun h' : k = k' => h h'.symm
        simp [List.find?_cons, this]
      | some e' => simp

end assoc

abbrev Series := List (Int × Rat)
abbrev PerNode := List (Node × Series)
abbrev Sliding := List (Nat × PerNode)

/-- the series stored under (alpha, node); `[]` when there is none -/
def c20s_series (res : Sliding) (a : Nat) (n : Node) : Series :=
  ((c20s_get res a).bind (fun per => c20s_get per n)).getD []

/-- `seq[n].append((stamp, v))` for every `(n, v)` of one result row -/
def c20s_pushRow (stamp : Int) (cur : PerNode) (row : List (Node × Rat)) : PerNode :=
  row.foldl (fun (c : PerNode) (nv : Node × Rat) =>
    if c.any (fun e => e.1 == nv.1) then c.map (fun e => if e.1 == nv.1 then (e.1, e.2 ++ [(stamp, nv.2)]) else e)
    else c ++ [(nv.1, [(stamp, nv.2)])]) cur

theorem c20s_pushRow_get (stamp : Int) (row : List (Node × Rat)) (cur : PerNode) (n : Node) :
    (c20s_get (c20s_pushRow stamp cur row) n).getD [] =
      (c20s_get cur n).getD [] ++ (row.filter (fun nv => nv.1 == n)).map (fun nv => (stamp, nv.2)) := by
  induction row generalizing cur with
  | nil => simp [c20s_pushRow]
  | cons nv row ih =>
    unfold c20s_pushRow
    rw [List.foldl_cons]
    have hstep := c20s_get_upsert cur nv.1 n (fun s => s ++ [(stamp, nv.2)]) [(stamp, nv.2)]
    have := ih (c20s_upsert cur nv.1 (fun s => s ++ [(stamp, nv.2)]) [(stamp, nv.2)])
    unfold c20s_pushRow c20s_upsert at this
    rw [this]
    unfold c20s_upsert at hstep
    rw [hstep]
    by_cases hk : nv.1 == n
    · have hk' : nv.1 = n := by simpa using hk
      have hn : (n == nv.1) = true := by simp [hk']
      simp only [hn, if_true, List.filter_cons, hk, List.map_cons, Option.getD_some]
      subst hk'
      cases c20s_get cur nv.1 <;> simp
    · have hn : (n == nv.1) = false := by
        have h : ¬ nv.1 = n := by simpa using hk
        simpa using fun h' : n = nv.1 => h h'.symm
      simp [hn, List.filter_cons, hk]

/-- merging one `delta_conformity` result `r` (stamped `stamp`) into the accumulated dictionary -/
def c20s_merge (stamp : Int) (acc : Sliding) (r : List (Nat × List (Node × Rat))) : Sliding :=
  r.foldl (fun (acc : Sliding) (ar : Nat × List (Node × Rat)) =>
    let cur := ((acc.find? (fun e => e.1 == ar.1)).map (·.2)).getD []
    let cur' := ar.2.foldl (fun (c : PerNode) (nv : Node × Rat) =>
      if c.any (fun e => e.1 == nv.1) then c.map (fun e => if e.1 == nv.1 then (e.1, e.2 ++ [(stamp, nv.2)]) else e)
      else c ++ [(nv.1, [(stamp, nv.2)])]) cur
    if acc.any (fun e => e.1 == ar.1) then acc.map (fun e => if e.1 == ar.1 then (e.1, cur') else e)
    else acc ++ [(ar.1, cur')]) acc

/-- what one result contributes to the series of (a, n) -/
def c20s_contrib (stamp : Int) (r : List (Nat × List (Node × Rat))) (a : Nat) (n : Node) : Series :=
  (r.filter (fun ar => ar.1 == a)).flatMap (fun ar => (ar.2.filter (fun nv => nv.1 == n)).map (fun nv => (stamp, nv.2)))

theorem c20s_merge_series (stamp : Int) (r : List (Nat × List (Node × Rat))) (acc : Sliding) (a : Nat) (n : Node) :
    c20s_series (c20s_merge stamp acc r) a n = c20s_series acc a n ++ c20s_contrib stamp r a n := by
  induction r generalizing acc with
  | nil => simp [c20s_merge, c20s_contrib]
  | cons ar r ih =>
    unfold c20s_merge
    rw [List.foldl_cons]
    -- one step is an upsert of the whole per-node dictionary
    have hstep : ∀ k', c20s_get (c20s_upsert acc ar.1
        (fun _ => c20s_pushRow stamp ((c20s_get acc ar.1).getD []) ar.2)
        (c20s_pushRow stamp ((c20s_get acc ar.1).getD []) ar.2)) k' = _ :=
      fun k' => c20s_get_upsert acc ar.1 k' _ _
    have := ih (c20s_upsert acc ar.1 (fun _ => c20s_pushRow stamp ((c20s_get acc ar.1).getD []) ar.2)
        (c20s_pushRow stamp ((c20s_get acc ar.1).getD []) ar.2))
    unfold c20s_merge c20s_upsert c20s_pushRow c20s_get at this
    simp only at this ⊢
    rw [this]
    unfold c20s_series
    have h2 := hstep a
    unfold c20s_upsert c20s_pushRow c20s_get at h2
    simp only at h2
    unfold c20s_get
    rw [h2]
    unfold c20s_contrib
    by_cases hk : ar.1 == a
    · have hk' : ar.1 = a := by simpa using hk
      have ha : (a == ar.1) = true := by simp [hk']
      simp only [ha, if_true, List.filter_cons, hk, List.flatMap_cons, Option.bind_some]
      have hp := c20s_pushRow_get stamp ar.2 ((c20s_get acc ar.1).getD []) n
      unfold c20s_pushRow c20s_get at hp
      subst hk'
      cases hg : Option.map (fun x => x.2) (List.find? (fun e => e.1 == ar.1) acc) with
      | none =>
        rw [hg] at hp
        simp only [Option.getD_none] at hp ⊢
        rw [hp]
        simp
      | some per =>
        rw [hg] at hp
        simp only [Option.getD_some] at hp ⊢
        rw [hp]
        simp [List.append_assoc]
    · have ha : (a == ar.1) = false := by
        have h : ¬ ar.1 = a := by simpa using hk
        simpa using fun h' : a = ar.1 => h h'.symm
      simp [ha, List.filter_cons, hk]

/-- the snapshot ids the driver visits: `t + delta < tids[-1]` -/
def c20s_qualifying (dg : Graph) (delta : Int) : List Int :=
  match dg.ids.getLast? with
  | none => []
  | some lastId => dg.ids.filter (fun t => t + delta < lastId)

/-- one iteration of `for t in tids` -/
def c20s_step (dg : Graph) (delta : Int) (alphas : List Nat) (ptype : Nat) (acc : Sliding) (t : Int) :
    Except Err Sliding :=
  match dg.deltaConformity t delta alphas ptype with
  | .error e => .error e
  | .ok none => .ok acc
  | .ok (some r) => .ok (c20s_merge (t + delta) acc r)

theorem c20s_sliding_eq (dg : Graph) (delta : Int) (alphas : List Nat) (ptype : Nat) :
    dg.slidingDeltaConformity delta alphas ptype =
      (c20s_qualifying dg delta).foldlM (c20s_step dg delta alphas ptype) [] := by
  unfold Graph.slidingDeltaConformity c20s_qualifying
  show (match dg.ids.getLast? with
    | none => (Except.ok [] : Except Err Sliding)
    | some lastId => (dg.ids.filter (fun t => t + delta < lastId)).foldlM (c20s_step dg delta alphas ptype) []) = _
  cases dg.ids.getLast? with
  | none => rfl
  | some lastId => rfl

/-- the series (alpha, node) the property prescribes over the ids `ts` -/
def c20s_expected (dg : Graph) (delta : Int) (alphas : List Nat) (ptype : Nat) (ts : List Int) (a : Nat) (n : Node) :
    Series :=
  ts.flatMap (fun t => match dg.deltaConformity t delta alphas ptype with
    | .ok (some r) => c20s_contrib (t + delta) r a n
    | _ => [])

theorem c20s_fold (dg : Graph) (delta : Int) (alphas : List Nat) (ptype : Nat) (ts : List Int) :
    ∀ (acc res : Sliding), ts.foldlM (c20s_step dg delta alphas ptype) acc = .ok res →
      (∀ t ∈ ts, ∃ r, dg.deltaConformity t delta alphas ptype = .ok r) ∧
      ∀ a n, c20s_series res a n = c20s_series acc a n ++ c20s_expected dg delta alphas ptype ts a n := by
  induction ts with
  | nil =>
    intro acc res h
    simp only [List.foldlM_nil, pure, Except.pure, Except.ok.injEq] at h
    subst h
    simp [c20s_expected]
  | cons t ts ih =>
    intro acc res h
    simp only [List.foldlM_cons, bind, Except.bind] at h
    unfold c20s_step at h
    cases hd : dg.deltaConformity t delta alphas ptype with
    | error e => rw [hd] at h; cases h
    | ok o =>
      rw [hd] at h
      cases o with
      | none =>
        simp only at h
        obtain ⟨h1, h2⟩ := ih acc res h
        refine ⟨?_, ?_⟩
        · intro t' ht'
          rcases List.mem_cons.mp ht' with rfl | ht'
          · exact ⟨_, hd⟩
          · exact h1 t' ht'
        · intro a n
          rw [h2 a n]
          simp [c20s_expected, hd]
      | some r =>
        simp only at h
        obtain ⟨h1, h2⟩ := ih _ res h
        refine ⟨?_, ?_⟩
        · intro t' ht'
          rcases List.mem_cons.mp ht' with rfl | ht'
          · exact ⟨_, hd⟩
          · exact h1 t' ht'
        · intro a n
          rw [h2 a n, c20s_merge_series]
          simp [c20s_expected, hd, List.append_assoc]

theorem c20s_fold_ok (dg : Graph) (delta : Int) (alphas : List Nat) (ptype : Nat) (ts : List Int) :
    ∀ (acc : Sliding), (∀ t ∈ ts, ∃ r, dg.deltaConformity t delta alphas ptype = .ok r) →
      ∃ res, ts.foldlM (c20s_step dg delta alphas ptype) acc = .ok res := by
  induction ts with
  | nil => intro acc _; exact ⟨acc, rfl⟩
  | cons t ts ih =>
    intro acc hall
    obtain ⟨r, hr⟩ := hall t List.mem_cons_self
    simp only [List.foldlM_cons, bind, Except.bind]
    unfold c20s_step
    rw [hr]
    cases r with
    | none => exact ih acc (fun t' ht' => hall t' (List.mem_cons_of_mem _ ht'))
    | some r => exact ih _ (fun t' ht' => hall t' (List.mem_cons_of_mem _ ht'))

/-- **C20 (sliding).** The series reported under (alpha, node) is, in chronological order, `(t + delta, score)`
    for every snapshot id `t` with `t + delta` before the last id whose `delta_conformity(G, t, delta, …)` is not
    `None`, the score being the one that call gives to (alpha, node); nothing else is reported. -/
theorem C20_sliding (dg : Graph) (delta : Int) (alphas : List Nat) (ptype : Nat) (res : Sliding)
    (h : dg.slidingDeltaConformity delta alphas ptype = .ok res) :
    ∀ a n, c20s_series res a n = c20s_expected dg delta alphas ptype (c20s_qualifying dg delta) a n := by
  rw [c20s_sliding_eq] at h
  intro a n
  have := (c20s_fold dg delta alphas ptype _ [] res h).2 a n
  simpa [c20s_series, c20s_get] using this

/-- the sliding call succeeds exactly when every visited `delta_conformity` call does -/
theorem C20_sliding_ok_iff (dg : Graph) (delta : Int) (alphas : List Nat) (ptype : Nat) :
    (∃ res, dg.slidingDeltaConformity delta alphas ptype = .ok res) ↔
      ∀ t ∈ c20s_qualifying dg delta, ∃ r, dg.deltaConformity t delta alphas ptype = .ok r := by
  rw [c20s_sliding_eq]
  constructor
  · rintro ⟨res, h⟩
    exact (c20s_fold dg delta alphas ptype _ [] res h).1
  · exact c20s_fold_ok dg delta alphas ptype _ []

/-- the visited ids are exactly the snapshot ids `t` with `t + delta` strictly before the last id -/
theorem C20_sliding_ids (dg : Graph) (delta : Int) (t : Int) :
    t ∈ c20s_qualifying dg delta ↔ t ∈ dg.ids ∧ ∃ lastId, dg.ids.getLast? = some lastId ∧ t + delta < lastId := by
  unfold c20s_qualifying
  cases h : dg.ids.getLast? with
  | none =>
    have : dg.ids = [] := by simpa using h
    simp [this]
  | some lastId => simp [List.mem_filter]

end Dynetx
