import DynetxModel
/-
  Line protocol driver: one op per input line, one canonical JSON value per output line
  (the same protocol harness/impl.py speaks for the real dynetx).  `reset` clears all slots.
-/
open Dynetx

inductive J where
  | num (i : Int)
  | str (s : String)
  | arr (l : List J)
  | obj (kv : List (String × J))
  | null

partial def J.render : J → String
  | .num i => toString i
  | .str s => "\"" ++ s ++ "\""
  | .arr l => "[" ++ ",".intercalate (l.map J.render) ++ "]"
  | .obj kv => "{" ++ ",".intercalate (kv.map (fun (k, v) => "\"" ++ k ++ "\":" ++ v.render)) ++ "}"
  | .null => "null"

def jn (n : Nat) : J := .num n
def ji (i : Int) : J := .num i
def jb (b : Bool) : J := .num (if b then 1 else 0)
def jints (l : List Int) : J := .arr (l.map .num)
def jnats (l : List Nat) : J := .arr (l.map jn)
def jq (n d : Int) : J := .arr [.str "q", .num n, .num d]
def jrat (r : Rat) : J := jq r.num r.den

def errStr : Err → String
  | .networkx => "E:NXE" | .value => "E:VE" | .key => "E:KeyError" | .index => "E:IndexError"
  | .type => "E:TypeError" | .nxni => "E:NXNI" | .zeroDiv => "E:ZeroDiv"

def jerr (e : Err) : J := .str (errStr e)

/-- lexicographic order on integer keys -/
def lexLe : List Int → List Int → Bool
  | [], _ => true
  | _ :: _, [] => false
  | a :: as, b :: bs => if a < b then true else if a > b then false else lexLe as bs

def sortByKey {α} (key : α → List Int) (l : List α) : List α := l.mergeSort (fun a b => lexLe (key a) (key b))

def sortNats (l : List Nat) : List Nat := l.mergeSort (fun a b => decide (a ≤ b))

structure St where
  slots : List (Nat × Graph)

def St.get (s : St) (k : Nat) : Option Graph := (s.slots.find? (fun p => p.1 == k)).map (·.2)
def St.set (s : St) (k : Nat) (g : Graph) : St := { slots := (k, g) :: s.slots.filter (fun p => p.1 != k) }

def tokI (s : String) : Option Int := if s == "-" then none else s.toInt?
def tokN (s : String) : Nat := s.toNat?.getD 0

def ukey (g : Graph) (u v : Node) : Node × Node := if g.directed then (u, v) else (min u v, max u v)

def pairsFrom : List String → List (Node × Node)
  | a :: b :: rest => (tokN a, tokN b) :: pairsFrom rest
  | _ => []

def sortedNodes (g : Graph) : List Node := sortNats g.nodeList

/-! ### canonical observables -/

def chronoB : List Int → Bool
  | a :: b :: rest => decide (a ≤ b) && chronoB (b :: rest)
  | _ => true

def dumpJ (g : Graph) : J :=
  let nodes := sortByKey (fun (p : Node × Nat) => [(p.1 : Int)]) g.nodes
  let tls := sortByKey (fun (r : Node × Node × List Span) => [(r.1 : Int), (r.2.1 : Int)])
    (g.edges.map (fun e => let k := ukey g e.u e.v; (k.1, k.2, e.tl.reverse)))
  let evs := g.stream.map (fun e => let k := ukey g e.u e.v; [e.t, (k.1 : Int), (k.2 : Int), if e.plus then 1 else 0])
  let chrono := chronoB (g.stream.map (·.t))
  let cnt := sortByKey (fun (p : Int × Nat) => [p.1]) g.snaps
  .obj [("cls", jb g.directed), ("rem", jb g.removal), ("g", jn g.gattr),
        ("nodes", .arr (nodes.map (fun p => .arr [jn p.1, jn p.2]))),
        ("tl", .arr (tls.map (fun (u, v, tl) => .arr [jn u, jn v, .arr (tl.map (fun s => jints [s.1, s.2]))]))),
        ("ev", .arr ((sortByKey id evs).map jints)), ("chrono", jb chrono),
        ("ids", jints g.ids), ("cnt", .arr (cnt.map (fun p => .arr [ji p.1, jn p.2])))]

def streamJ (g : Graph) : J :=
  let evs := g.stream.map (fun e => let k := ukey g e.u e.v; [e.t, (k.1 : Int), (k.2 : Int), if e.plus then 1 else 0])
  .obj [("ev", .arr ((sortByKey id evs).map jints)), ("chrono", jb (chronoB (g.stream.map (·.t))))]

def presJ (g : Graph) (lo hi : Int) : J :=
  let univ := sortedNodes g ++ [99]
  let rows := univ.flatMap (fun a => univ.filterMap (fun b =>
    let flat := g.hasInteraction a b none
    let ts := (irange lo hi).filter (fun t => g.hasInteraction a b (some t))
    if flat || !ts.isEmpty then some (J.arr [jn a, jn b, jb flat, jints ts]) else none))
  .arr rows

def tlsJ (g : Graph) : J :=
  let rows : List (Nat × Node × Node × List Span) := g.nodeList.flatMap (fun n =>
    if g.directed then
      ((g.outInteractions (some [n]) none).map (fun p => (2, p.1, p.2, (g.timeline p.1 p.2).getD []))) ++
      ((g.inInteractions (some [n]) none).map (fun p => (0, p.1, p.2, (g.timeline p.1 p.2).getD [])))
    else
      (g.interactions (some [n]) none).map (fun p => (1, p.1, p.2, (g.timeline p.1 p.2).getD [])))
  -- names sort as "in" < "inter" < "out"
  let sorted := sortByKey (fun (r : Nat × Node × Node × List Span) => [(r.1 : Int), (r.2.1 : Int), (r.2.2.1 : Int)]) rows
  .arr (sorted.map (fun (k, u, v, tl) =>
    .arr [.str (if k == 0 then "in" else if k == 1 then "inter" else "out"), jn u, jn v, .arr (tl.map (fun s => jints [s.1, s.2]))]))

def interJ (g : Graph) (l : List (Node × Node)) : J :=
  let ks := sortByKey (fun (p : Node × Node) => [(p.1 : Int), (p.2 : Int)]) (l.map (fun p => ukey g p.1 p.2))
  .obj [("n", jn l.length), ("set", .arr (ks.map (fun p => jnats [p.1, p.2])))]

def degJ (l : List (Node × Nat)) : J :=
  .arr ((sortByKey (fun (p : Node × Nat) => [(p.1 : Int)]) l).map (fun p => jnats [p.1, p.2]))

def dedupNodes (l : List Node) : List Node := l.foldl (fun acc n => if acc.contains n then acc else acc ++ [n]) []

def q2J (g : Graph) (t : Option Int) (nb : Option (List Node)) : J :=
  let d := g.directed
  let nbl := dedupNodes (g.nbunch nb)
  let base : List (String × J) :=
    [("inter", interJ g (g.interactions nb t)), ("inter_iter", interJ g (g.interactions nb t)), ("f_inter", interJ g (g.interactions nb t))] ++
    (if d then [("in_inter", interJ g (g.inInteractions nb t)), ("out_inter", interJ g (g.outInteractions nb t)),
                ("in_inter_iter", interJ g (g.inInteractions nb t)), ("out_inter_iter", interJ g (g.outInteractions nb t))] else []) ++
    (let dg := degJ (nbl.map (fun n => (n, g.degree n t)))
     [("deg", dg), ("deg_iter", dg), ("f_deg", dg)] ++
       (if nb.isSome then [("deg_once", dg), ("deg_set", dg), ("inter_once", interJ g (g.interactions nb t)),
                          ("inter_tuple", interJ g (g.interactions nb t))] else [])) ++
    (if d then
      let i := degJ (nbl.map (fun n => (n, g.inDegree n t)))
      let o := degJ (nbl.map (fun n => (n, g.outDegree n t)))
      [("indeg", i), ("outdeg", o), ("indeg_iter", i), ("outdeg_iter", o)] else [])
  match nb with
  | some _ => .obj base
  | none =>
    let sl (l : List Node) : J := jnats (sortNats l)
    let nodesT := g.nodesAt t
    let dens := g.density t
    let non := g.nonInteractions t
    let nonS := sortByKey (fun (p : Node × Node) => [(p.1 : Int), (p.2 : Int)]) (non.map (fun p => (min p.1 p.2, max p.1 p.2)))
    let per : List (String × J) := (g.nodeList.map (fun n =>
      let nb := sl (g.neighbors n t)
      (toString n, J.obj (
        [("nbrs", nb), ("nbrs_iter", nb), ("f_nbrs", nb)] ++
        (if d then [("succ", nb), ("pred", sl (g.predecessors n t)), ("succ_iter", nb), ("pred_iter", sl (g.predecessors n t)),
                    ("indeg1", jn (g.inDegree n t)), ("outdeg1", jn (g.outDegree n t))] else []) ++
        [("hasnode", jb (g.hasNode n t)), ("deg1", jn (g.degree n t)), ("allnbrs", sl (g.allNeighbors n t)), ("nonnbrs", sl (g.nonNeighbors n t))] ++
        (if t.isNone then [("snaps", jints (g.nodeSnapshots n))] else []))))) ++
      [("99", J.obj [("hasnode", jb (g.hasNode 99 t)), ("hasnode_unhashable", jn 0)])]
    let pairs : List (String × J) := g.nodeList.flatMap (fun a => g.nodeList.filterMap (fun b =>
      let v := g.numberOfInteractions2 a b t
      if v != 0 then some (toString a ++ "," ++ toString b, jnats (if d then [v, v, v, v] else [v, v])) else none))
    .obj (base ++
      [("nodes", sl nodesT), ("nodes_iter", sl nodesT), ("f_nodes", sl nodesT),
       ("nodes_data", .arr ((sortByKey (fun (p : Node × Nat) => [(p.1 : Int)]) (g.nodes.filter (fun p => nodesT.contains p.1))).map (fun p => jnats [p.1, p.2]))),
       ("nnodes", jn nodesT.length), ("f_nnodes", jn nodesT.length)] ++
      (if d then [] else [("order", jn nodesT.length)]) ++
      [("size", jn (g.size t)), ("nint", jn (g.size t)), ("f_nint", jn (g.size t)),
       ("density", jq dens.1 dens.2), ("deghist", jnats (g.degreeHistogram t)), ("isempty", jb g.isEmpty),
       ("nonint", .obj [("n", jn non.length), ("set", .arr (nonS.map (fun p => jnats [p.1, p.2])))]),
       ("per", .obj per), ("nint2", .obj pairs)])

def q4J (g : Graph) (lo hi : Int) : J :=
  let ips := J.arr ((irange lo hi).map (fun t => .arr [ji t, jn (g.ips2 t)]))
  let avg := g.avgNumberOfNodes
  .obj [("ids", jints g.ids), ("f_ids", jints g.ids), ("ips", ips), ("f_ips", ips),
        ("ipsall", .arr ((sortByKey (fun (p : Int × Nat) => [p.1]) g.snaps).map (fun p => .arr [ji p.1, jn p.2]))),
        ("nn", .arr (g.ids.map (fun t => .arr [ji t, jn (g.numberOfNodes (some t))]))),
        ("avg", if avg.2 == 0 then .str "E:ZeroDiv" else jq avg.1 avg.2)]

def ratioJ (p : Nat × Nat) : J := if p.2 == 0 then .str "E:ZeroDiv" else jq p.1 p.2
def ratio0J (p : Nat × Nat) : J := if p.2 == 0 then jq 0 1 else jq p.1 p.2

def histJ (h : List (Int × Nat)) : J :=
  .arr ((sortByKey (fun (p : Int × Nat) => [p.1]) h).map (fun p => .arr [ji p.1, jn p.2]))

def statsJ (g : Graph) : J :=
  let nodes := g.nodeList
  let und : List (String × J) :=
    if g.directed then [] else
      [("coverage", ratioJ g.coverage), ("uniformity", ratioJ g.uniformity), ("density", ratioJ g.tdensity),
       ("avg_nodes", ratioJ g.avgNumberOfNodes),
       ("node", .obj (nodes.map (fun n => (toString n, J.obj [("contrib", ratioJ (g.nodeContribution n)),
          ("ndens", ratio0J (g.nodeDensity n)), ("npres", jints ((g.nodePresence n).mergeSort (fun a b => decide (a ≤ b))))])))),
       ("pair", .obj ((pairsOf nodes).map (fun (a, b) =>
          (toString (min a b) ++ "," ++ toString (max a b), J.obj (
            [("puni", ratioJ (g.nodePairUniformity a b)), ("pdens", ratio0J (g.pairDensity a b))] ++
            (match g.edgeContribution a b with
              | some (n, d) => [("econtrib", if d == 0 then .str "E:ZeroDiv" else jq n d)]
              | none => [])))))),
       ("sdens", .arr (g.ids.map (fun t => .arr [ji t, match g.snapshotDensity t with
          | .ok p => jq p.1 p.2
          | .error e => jerr e])))]
  let gl := histJ g.interEventGlobal
  .obj (und ++ [("iet", gl), ("f_iet", gl),
    ("niet", .obj (nodes.map (fun n => (toString n, J.obj ([("iet", histJ (g.interEventNode n))] ++
      (if g.directed then [("in", histJ (g.interEventIn n)), ("out", histJ (g.interEventOut n))] else []))))))] ++
    (if g.directed then [("iet_in", gl), ("iet_out", gl)] else []) ++
    -- the per-interaction variants, every ordered pair of nodes
    [("piet", .obj (nodes.flatMap (fun a => nodes.map (fun b =>
      (toString a ++ "," ++ toString b, J.obj (
        [("both", match g.interEventPair a b with | .ok h => histJ h | .error e => jerr e)] ++
        (if g.directed then [("in", histJ (g.interEventPairIn a b)), ("out", histJ (g.interEventPairOut a b))] else [])))))))])

def occJ (o : Occ) : J := .arr [jn o.1, ji o.2]

def dagJ (u : Node) (d : Dag) : J :=
  let key (o : Occ) : List Int := [(o.1 : Int), o.2]
  let edges := sortByKey (fun (e : Occ × Occ) => key e.1 ++ key e.2) d.edges
  let nodes := sortByKey key d.nodes
  -- the bare root sorts before the occurrences of the same node
  let before := nodes.filter (fun o => o.1 < u)
  let after := nodes.filter (fun o => o.1 ≥ u)
  let rec acyclic (fuel : Nat) (es : List (Occ × Occ)) : Bool :=
    match fuel with
    | 0 => es.isEmpty
    | f + 1 =>
      -- peel nodes without incoming edge
      let es' := es.filter (fun e => es.any (fun e2 => e2.2 == e.1))
      if es'.length == es.length then es.isEmpty else acyclic f es'
  .obj [("edges", .arr (edges.map (fun e => .arr [jn e.1.1, ji e.1.2, jn e.2.1, ji e.2.2]))),
        ("src", .arr ((sortByKey key d.sources).map occJ)), ("tgt", .arr ((sortByKey key d.targets).map occJ)),
        ("nodes", .arr (before.map occJ ++ [J.arr [jn u, .null]] ++ after.map occJ)),
        ("acyclic", jb (acyclic (d.edges.length + 1) d.edges))]

def hopKey (h : Hop) : List Int := [(h.1 : Int), (h.2.1 : Int), h.2.2]
def pathKeyL (p : TPath) : List Int := p.flatMap (fun h => hopKey h ++ [0])

/-- Python compares lists of lists element-wise, a proper prefix sorting first -/
def pathLe : TPath → TPath → Bool
  | [], _ => true
  | _ :: _, [] => false
  | a :: as, b :: bs => if hopKey a == hopKey b then pathLe as bs else lexLe (hopKey a) (hopKey b)

def pathJ (p : TPath) : J := .arr (p.map (fun h => .arr [jn h.1, jn h.2.1, ji h.2.2]))

def pathsJ (r : List ((Node × Node) × List TPath)) : J :=
  .obj (r.map (fun (k, ps) => (toString k.1 ++ "," ++ toString k.2,
    J.obj [("n", jn ps.length), ("paths", .arr ((ps.mergeSort pathLe).map pathJ)), ("tuple", jn 1)])))

def parsePaths : Nat → List String → List TPath
  | 0, _ => []
  | k + 1, n :: rest =>
    let n := tokN n
    let rec hops : Nat → List String → TPath × List String
      | 0, r => ([], r)
      | m + 1, a :: b :: t :: r => let (hs, r') := hops m r; ((tokN a, tokN b, (t.toInt?.getD 0)) :: hs, r')
      | _, r => ([], r)
    let (p, rest') := hops n rest
    p :: parsePaths k rest'
  | _, _ => []

def annotJ (ps : List TPath) : J :=
  let a := annotatePaths ps
  let l (x : List TPath) : J := .arr (x.map pathJ)
  .obj [("shortest", l a.shortest), ("fastest", l a.fastest), ("foremost", l a.foremost),
        ("fastest_shortest", l a.fastestShortest), ("shortest_fastest", l a.shortestFastest),
        ("len", jnats (ps.map pathLength)), ("dur", jints (ps.map pathDuration))]

/-- token rows `n f1 .. fn` repeated k times -/
def parseRows : Nat → List String → List (List String)
  | 0, _ => []
  | k + 1, n :: rest => let n := tokN n; rest.take n :: parseRows k (rest.drop n)
  | _, _ => []

def snapRowsOf (rows : List (List String)) : List (Node × Node × Int × Option Int) :=
  rows.filterMap (fun r => match r with
    | u :: v :: t :: rest => some (tokN u, tokN v, t.toInt?.getD 0, rest.head?.bind String.toInt?)
    | _ => none)

def evRowsOf : List String → List Ev
  | u :: v :: op :: t :: rest => { t := t.toInt?.getD 0, u := tokN u, v := tokN v, plus := op == "1" } :: evRowsOf rest
  | _ => []

/-- node-link records: `m (n k (key val)*k)*m` -/
def parseNodeAttrs : Nat → List String → List (Node × Attrs)
  | 0, _ => []
  | m + 1, n :: k :: rest =>
    let k := tokN k
    let body := rest.take (2 * k)
    let attrs : Attrs := dictOf ((List.range k).map (fun i => (tokN (body.getD (2 * i) "0"), tokN (body.getD (2 * i + 1) "0"))))
    (tokN n, attrs) :: parseNodeAttrs m (rest.drop (2 * k))
  | _, _ => []

/-- hand-written records: `m (k (key kind val)*k)*m`, kind 1 = a node id, 0 = an attribute value -/
def parseRecords : Nat → List String → List Record
  | 0, _ => []
  | m + 1, k :: rest =>
    let k := tokN k
    let body := rest.take (3 * k)
    let r : Record := dictOf <| (List.range k).map (fun i =>
      (tokN (body.getD (3 * i) "0"),
       if body.getD (3 * i + 1) "0" == "1" then RecVal.node (tokN (body.getD (3 * i + 2) "0"))
       else RecVal.attr (tokN (body.getD (3 * i + 2) "0"))))
    r :: parseRecords m (rest.drop (3 * k))
  | _, _ => []

def recValJ : RecVal → List J
  | .attr v => [jn 0, jn v]
  | .node n => [jn 1, jn n]

def recordJ (r : Record) : J := .arr (r.map (fun e => .arr (jn e.1 :: recValJ e.2)))

def nodeTableJ (t : List (RecVal × Record)) : J := .arr (t.map (fun e => .arr (recValJ e.1 ++ [recordJ e.2])))

def alphaKey (a : Nat) : String := toString a ++ ".00"

def confJ (r : Option (List (Nat × List (Node × Rat)))) : J :=
  match r with
  | none => .null
  | some l => .obj (l.map (fun (a, sc) => (alphaKey a, J.obj [("a",
      .arr ((sortByKey (fun (p : Node × Rat) => [(p.1 : Int)]) sc).map (fun p => .arr [jn p.1, jrat p.2])))])))

def sconfJ (l : List (Nat × List (Node × List (Int × Rat)))) : J :=
  .obj (l.map (fun (a, sc) => (alphaKey a, J.obj [("a",
    .arr ((sortByKey (fun (p : Node × List (Int × Rat)) => [(p.1 : Int)]) sc).map (fun p =>
      .arr [jn p.1, .arr (p.2.map (fun tv => .arr [ji tv.1, jrat tv.2]))])))])))

def charsOf (codes : List String) : List Char := codes.map (fun c => Char.ofNat (tokN c))

def ok : J := .str "ok"

def storeRes (s : St) (dst : Nat) (r : Graph × Option Err) : St × J :=
  match r with
  | (g, none) => (s.set dst g, ok)
  | (_, some e) => (s, jerr e)

def storeExc (s : St) (dst : Nat) (r : Except Err Graph) : St × J :=
  match r with
  | .ok g => (s.set dst g, ok)
  | .error e => (s, jerr e)

/-- mutators keep the state the failing call left behind (Python mutates in place) -/
def mutate (s : St) (k : Nat) (f : Graph → Graph × Option Err) : St × J :=
  match s.get k with
  | none => (s, .str "E:KeyError")
  | some g => match f g with
    | (g', none) => (s.set k g', ok)
    | (g', some e) => (s.set k g', jerr e)

/-- the tables of `confh` / `sconfh`: | nl l.. | na a.. | nhl l.. | nh (l v rank).. | ns (n l v).. | ndp (n l).. | nd (n l t v).. -/
def parseHier (rest : List String) : List Nat × List Nat × LabelTableH × Hierarchies :=
  let grab (r : List String) (w : Nat) : List (List String) × List String :=
    let n := tokN (r.headD "0")
    let body := (r.drop 1).take (n * w)
    ((List.range n).map (fun i => (body.drop (i * w)).take w), (r.drop 1).drop (n * w))
  let (ls, rest) := grab rest 1
  let labels := ls.map (fun x => tokN (x.headD "0"))
  let (as, rest) := grab rest 1
  let alphas := as.map (fun x => tokN (x.headD "0") / 100)
  let (hl, rest) := grab rest 1
  let hlabels := hl.map (fun x => tokN (x.headD "0"))
  let (hs, rest) := grab rest 3
  let htr : List (Nat × Nat × Int) := hs.map (fun x => (tokN (x.getD 0 "0"), tokN (x.getD 1 "0"), ((x.getD 2 "0").toInt?.getD 0)))
  let (ss, rest) := grab rest 3
  let stat : List (Node × Nat × Nat) := ss.map (fun x => (tokN (x.getD 0 "0"), tokN (x.getD 1 "0"), tokN (x.getD 2 "0")))
  let (dp, rest) := grab rest 2
  let dynp : List (Node × Nat) := dp.map (fun x => (tokN (x.getD 0 "0"), tokN (x.getD 1 "0")))
  let (ds, _) := grab rest 4
  let dyn : List (Node × Nat × Int × Nat) := ds.map (fun x => (tokN (x.getD 0 "0"), tokN (x.getD 1 "0"), ((x.getD 2 "0").toInt?.getD 0), tokN (x.getD 3 "0")))
  let tab : LabelTableH := fun l n =>
    if dynp.any (fun e => e.1 == n && e.2 == l) then
      .dyn ((dyn.filter (fun e => e.1 == n && e.2.1 == l)).map (fun e => (e.2.2.1, e.2.2.2)))
    else .static (((stat.find? (fun e => e.1 == n && e.2.1 == l)).map (·.2.2)).getD 0)
  let hier : Hierarchies := fun l =>
    if hlabels.contains l then some ((htr.filter (fun e => e.1 == l)).map (fun e => (e.2.1, e.2.2))) else none
  (labels, alphas, tab, hier)

def withG (s : St) (k : String) (f : Graph → J) : St × J :=
  match s.get (tokN k) with
  | none => (s, .str "E:KeyError")
  | some g => (s, f g)

def exec (s : St) (w : List String) : St × J :=
  match w with
  | ["reset"] => ({ slots := [] }, ok)
  | ["reads", _] => (s, ok)        -- read-only calls: nothing changes in the model (nor may it in the code)
  | ["new", k, cls, rem] => (s.set (tokN k) (Graph.empty (cls == "1") (rem == "1")), ok)
  | ["add", k, u, v, t, e] => mutate s (tokN k) (fun g => g.addInteraction (tokN u) (tokN v) (tokI t) (tokI e))
  | "addfrom" :: k :: t :: e :: n :: rest =>
    mutate s (tokN k) (fun g => g.addInteractionsFrom ((pairsFrom rest).take (tokN n)) (tokI t) (tokI e))
  | "path" :: k :: t :: n :: rest => mutate s (tokN k) (fun g => g.addPath ((rest.take (tokN n)).map tokN) (tokI t))
  | "fpath" :: k :: t :: n :: rest => mutate s (tokN k) (fun g => g.addPath ((rest.take (tokN n)).map tokN) (tokI t) (((rest.drop (tokN n)).head?).bind tokI))
  | "star" :: k :: t :: n :: rest => mutate s (tokN k) (fun g => g.addStar ((rest.take (tokN n)).map tokN) (tokI t))
  | "fstar" :: k :: t :: n :: rest => mutate s (tokN k) (fun g => g.addStar ((rest.take (tokN n)).map tokN) (tokI t) (((rest.drop (tokN n)).head?).bind tokI))
  | "cycle" :: k :: t :: n :: rest => mutate s (tokN k) (fun g => g.addCycle ((rest.take (tokN n)).map tokN) (tokI t))
  | "fcycle" :: k :: t :: n :: rest => mutate s (tokN k) (fun g => g.addCycle ((rest.take (tokN n)).map tokN) (tokI t) (((rest.drop (tokN n)).head?).bind tokI))
  | ["node", k, n] => mutate s (tokN k) (fun g => (g.addNode (tokN n), none))
  | ["attr", k, n, a] => mutate s (tokN k) (fun g => (g.setAttr (tokN n) (tokN a), none))
  | ["clear", k] => mutate s (tokN k) (fun g => (g.clear, none))
  | ["clearedges", k] => mutate s (tokN k) (fun g => (g.clearEdges, none))
  | ["gattr", k, a] => mutate s (tokN k) (fun g => ({ g with gattr := tokN a }, none))
  | ["dump", k] => withG s k dumpJ
  | ["fstream", k] => withG s k streamJ
  | ["pres", k, lo, hi] => withG s k (fun g => presJ g (lo.toInt?.getD 0) (hi.toInt?.getD 0))
  | ["has", k, u, v, t] => withG s k (fun g => jb (g.hasInteraction (tokN u) (tokN v) (tokI t)))
  | ["tls", k] => withG s k tlsJ
  | ["slice", src, dst, a, b] | ["fslice", src, dst, a, b] =>
    (match s.get (tokN src) with
      | none => (s, .str "E:KeyError")
      | some g => storeExc s (tokN dst) (g.timeSlice (a.toInt?.getD 0) (tokI b)))
  | ["todir", src, dst] =>
    (match s.get (tokN src) with
      | none => (s, .str "E:KeyError")
      | some g => storeExc s (tokN dst) g.toDirected)
  | ["toundir", src, dst, r] =>
    (match s.get (tokN src) with
      | none => (s, .str "E:KeyError")
      | some g => storeExc s (tokN dst) (g.toUndirected (r == "1")))
  | "isol" :: _ => (s, .str "isolated")
  | ["wsnap", k] => withG s k (fun g =>
      .arr ((sortByKey (fun (r : Node × Node × Int) => [(r.1 : Int), (r.2.1 : Int), r.2.2]) g.genSnapshots).map
        (fun r => .arr [jn r.1, jn r.2.1, ji r.2.2])))
  | "rsnap" :: dst :: cls :: n :: rest =>
    storeRes s (tokN dst) (parseSnapshots (cls == "1") (snapRowsOf (parseRows (tokN n) rest)))
  | ["wint", k] => withG s k (fun g => match streamJ g with
      | .obj [(_, ev), ch] => .obj [("rows", ev), ch]
      | j => j)
  | "rint" :: dst :: cls :: n :: rest =>
    storeRes s (tokN dst) (parseInteractions (cls == "1") ((evRowsOf rest).take (tokN n)))
  | ["snaprt", src, dst] =>
    (match s.get (tokN src) with
      | none => (s, .str "E:KeyError")
      | some g => storeRes s (tokN dst) (parseSnapshots g.directed (g.genSnapshots.map (fun (u, v, t) => (u, v, t, none)))))
  | ["intrt", src, dst] =>
    (match s.get (tokN src) with
      | none => (s, .str "E:KeyError")
      | some g => storeRes s (tokN dst) (parseInteractions g.directed g.genInteractions))
  | ["textrt", kind, src, dst, delim] =>
    (match s.get (tokN src) with
      | none => (s, .str "E:KeyError")
      | some g =>
        let d : Char := match tokN delim with | 0 => ' ' | 1 => ',' | 2 => '\t' | _ => ';'
        let lines := if kind == "1" then g.interactionLines d else g.snapshotLines d
        let res := if kind == "1" then parseInteractionsText g.directed '#' (some d) lines
                   else parseSnapshotsText g.directed '#' (some d) lines
        let out := J.obj [("lines", .arr ((sortByKey (fun (l : List Char) => l.map (fun c => (c.toNat : Int))) lines).map
                      (fun l => J.arr (l.map (fun c => J.num (c.toNat : Int))))))]
        (match res with
          | (h, none) => (s.set (tokN dst) h, out)
          | (_, some e) => (s, jerr e)))
  | "textrtn" :: kind :: src :: dst :: delim :: k :: rest =>
    -- any node type: the table gives str(node) for every node code (code, length, char codes)
    (match s.get (tokN src) with
      | none => (s, .str "E:KeyError")
      | some g =>
        let d : Char := match tokN delim with | 0 => ' ' | 1 => ',' | 2 => '\t' | _ => ';'
        let rec table : Nat → List String → List (Node × List Char)
          | 0, _ => []
          | m + 1, c :: n :: r => (tokN c, charsOf (r.take (tokN n))) :: table m (r.drop (tokN n))
          | _, _ => []
        let tab := table (tokN k) rest
        let name : Node → List Char := fun n => ((tab.find? (fun e => e.1 == n)).map (·.2)).getD (natDigits n)
        let dec : List Char → Option Node := fun cs => (tab.find? (fun e => e.2 == cs)).map (·.1)
        let lines := if kind == "1" then g.interactionLinesWith name d else g.snapshotLinesWith name d
        let res := if kind == "1" then parseInteractionsTextWith dec g.directed '#' (some d) lines
                   else parseSnapshotsTextWith dec g.directed '#' (some d) lines
        let out := J.obj [("lines", .arr ((sortByKey (fun (l : List Char) => l.map (fun c => (c.toNat : Int))) lines).map
                      (fun l => J.arr (l.map (fun c => J.num (c.toNat : Int))))))]
        (match res with
          | (h, none) => (s.set (tokN dst) h, out)
          | (_, some e) => (s, jerr e)))
  | "filert" :: kind :: src :: dst :: _ =>
    (match s.get (tokN src) with
      | none => (s, .str "E:KeyError")
      | some g =>
        if kind == "1" then
          (match parseInteractions g.directed g.genInteractions with
            | (h, none) => (s.set (tokN dst) h, match streamJ g with
                | .obj [(_, ev), ch] => .obj [("rows", ev), ch]
                | j => j)
            | (_, some e) => (s, jerr e))
        else
          (match parseSnapshots g.directed (g.genSnapshots.map (fun (u, v, t) => (u, v, t, none))) with
            | (h, none) =>
              let rows := g.genSnapshots.map (fun (u, v, t) => let k := ukey g u v; (k.1, k.2, t))
              (s.set (tokN dst) h, .obj [("rows", .arr ((sortByKey (fun (r : Node × Node × Int) => [(r.1 : Int), (r.2.1 : Int), r.2.2]) rows).map
                (fun r => .arr [jn r.1, jn r.2.1, ji r.2.2]))), ("chrono", jn 1)])
            | (_, some e) => (s, jerr e)))
  | "rkeys" :: kind :: dst :: cls :: n :: rest =>
    let rows := parseRows (tokN n) rest
    let lines := rows.map (fun r =>
      let r := if kind == "1" && r.length == 4 && r.head? != some "#" then
                 [r.getD 0 "", r.getD 1 "", (if r.getD 2 "" == "1" then "+" else "-"), r.getD 3 ""] else r
      (" ".intercalate r).toList ++ ['\n'])
    storeRes s (tokN dst) (readKeysText (kind == "1") (cls == "1") '#' none lines)
  | ["nld", k] => withG s k (fun g =>
      let d := g.nodeLinkData
      let links := sortByKey (fun (r : Node × Node × Int) => [(r.1 : Int), (r.2.1 : Int), r.2.2])
        (d.links.map (fun (u, v, t) => let k := ukey g u v; (k.1, k.2, t)))
      .obj [("directed", jb g.directed),
            ("nodes", .arr ((sortByKey (fun (p : Node × Nat) => [(p.1 : Int)]) d.nodes).map (fun p => jnats [p.1, p.2]))),
            ("links", .arr (links.map (fun r => .arr [jn r.1, jn r.2.1, ji r.2.2]))), ("g", jn d.gattr), ("json", jn 1)])
  | ["nlrt", src, dst, dflt, keep] =>
    (match s.get (tokN src) with
      | none => (s, .str "E:KeyError")
      | some g =>
        let d := g.nodeLinkData
        let d := if keep == "1" then d else { d with directed := none, links := [] }
        storeRes s (tokN dst) (nodeLinkGraph d (dflt == "1")))
  | ["nlrt2", src, dst] =>
    (match s.get (tokN src) with
      | none => (s, .str "E:KeyError")
      | some g => storeRes s (tokN dst) (nodeLinkGraph g.nodeLinkData false))
  | "q2" :: k :: t :: rest =>
    withG s k (fun g =>
      let nb := match rest with
        | n :: ns => some ((ns.take (tokN n)).map tokN)
        | [] => none
      q2J g (tokI t) nb)
  | ["q4", k, lo, hi] => withG s k (fun g => q4J g (lo.toInt?.getD 0) (hi.toInt?.getD 0))
  | ["stats", k] => withG s k statsJ
  | ["dag", k, u, v, a, b] => withG s k (fun g =>
      match g.temporalDag (tokN u) ((tokI v).map Int.toNat) (tokI a) (tokI b) with
      | .ok d => if g.ids.isEmpty then .obj [("edges", .arr []), ("src", .arr []), ("tgt", .arr []), ("nodes", .arr []), ("acyclic", jn 1)]
                 else dagJ (tokN u) d
      | .error e => jerr e)
  | ["trp", k, u, v, a, b] => withG s k (fun g =>
      match g.timeRespectingPaths (tokN u) ((tokI v).map Int.toNat) (tokI a) (tokI b) with
      | .ok r => pathsJ r
      | .error e => jerr e)
  | "trps" :: k :: u :: v :: a :: b :: num :: den :: perm => withG s k (fun g =>
      -- the injected permutation covers indices 0..perm.length-1 only: larger pair sets are skipped on both sides
      let tooBig := match g.temporalDag (tokN u) ((tokI v).map Int.toNat) (tokI a) (tokI b) with
        | .ok d => g.hasNode (tokN u) (tokI a) && d.sources.length * d.targets.length > perm.length
        | .error _ => false
      if tooBig then .str "skip" else
      match g.timeRespectingPathsSample (tokN u) ((tokI v).map Int.toNat) (tokI a) (tokI b) (tokN num) (tokN den) (perm.map tokN) with
      | .ok r => pathsJ r
      | .error e => jerr e)
  | "trpsub" :: k :: u :: v :: a :: b :: _ => withG s k (fun g =>
      -- the real numpy draw: by C13_sample_subset the answer is "subset" (1) whenever the call succeeds
      match g.timeRespectingPaths (tokN u) ((tokI v).map Int.toNat) (tokI a) (tokI b) with
      | .ok _ => jn 1
      | .error e => jerr e)
  | "nlrecs" :: idKey :: m :: rest =>
    -- the node records node_link_data writes and the node table node_link_graph rebuilds from them
    let nodes := parseNodeAttrs (tokN m) rest
    let recs := nodeRecords (tokN idKey) nodes
    (s, .obj [("recs", .arr (recs.map recordJ)), ("back", nodeTableJ (importRecords (tokN idKey) recs))])
  | "nlimp" :: idKey :: m :: rest =>
    -- node_link_graph on hand-written records (missing ids, repeated ids)
    (s, nodeTableJ (importRecords (tokN idKey) (parseRecords (tokN m) rest)))
  | "occrt" :: t :: name =>
    -- encode the occurrence (name, t) and a second one ("x", t), decode both as `time_respecting_paths` does
    let t := (tokI t).getD 0
    let d1 := occDecode (occName (charsOf name) t)
    let d2 := occDecode (occName ['x'] t)
    (s, .arr [.arr (d1.1.map (fun c => jn c.toNat)), .arr (d2.1.map (fun c => jn c.toNat)),
              match intOf d2.2 with | some z => ji z | none => .null])
  | ["atrp", k, a, b, m] => withG s k (fun g =>
      match g.allTimeRespectingPaths (tokI a) (tokI b) (tokI m) with
      | .ok r => pathsJ r
      | .error e => jerr e)
  | "annot" :: k :: rest => (s, annotJ (parsePaths (tokN k) rest))
  | "compact" :: k :: rest =>
    (s, .arr ((sortByKey (fun (p : Int × Nat) => [p.1]) (compactTimeslot ((rest.take (tokN k)).filterMap String.toInt?))).map
      (fun p => .arr [ji p.1, jn p.2])))
  | "ptxt" :: kind :: dst :: cls :: delim :: cm :: n :: rest =>
    let lines := (parseRows (tokN n) rest).map charsOf
    let d := (tokI delim).map (fun c => Char.ofNat c.toNat)
    let c := Char.ofNat (tokN cm)
    storeRes s (tokN dst) (if kind == "1" then parseInteractionsText (cls == "1") c d lines else parseSnapshotsText (cls == "1") c d lines)
  | "ptxts" :: kind :: dst :: cls :: nd :: rest =>
    -- ptxts kind dst cls nd d1..dnd nc c1..cnc n (len codes)* : markers of several characters; nd = "-" is delimiter=None
    let (delim, rest) : Option (List Char) × List String :=
      if nd == "-" then (none, rest) else (some (charsOf (rest.take (tokN nd))), rest.drop (tokN nd))
    let nc := tokN (rest.headD "0")
    let cm := charsOf ((rest.drop 1).take nc)
    let rest := (rest.drop 1).drop nc
    let lines := (parseRows (tokN (rest.headD "0")) (rest.drop 1)).map charsOf
    storeRes s (tokN dst) (if kind == "1" then parseInteractionsTextS (cls == "1") cm delim lines
                           else parseSnapshotsTextS (cls == "1") cm delim lines)
  | "conf" :: k :: start :: delta :: pt :: n :: alphas =>
    withG s k (fun g =>
      match g.deltaConformity (start.toInt?.getD 0) (delta.toInt?.getD 0) ((alphas.take (tokN n)).map (fun a => tokN a / 100)) (tokN pt) with
      | .ok r => confJ r
      | .error e => jerr e)
  | "confw" :: k :: start :: delta :: pt :: na :: rest =>
    -- confw slot start delta ptype na (alpha*1000 key100 nd (num den)*nd)*na : the powers d ** alpha (d = 1..nd) as exact rationals;
    -- key100 is the result key '%.2f' % alpha as Python prints it, times 100
    withG s k (fun g =>
      let rec blocks : Nat → List String → List (Nat × List Rat)
        | 0, _ => []
        | m + 1, _k1000 :: key :: nd :: r =>
          let n := tokN nd
          let body := r.take (2 * n)
          let ws := (List.range n).map (fun i =>
            mkRat ((body.getD (2 * i) "0").toInt?.getD 0) (tokN (body.getD (2 * i + 1) "1")))
          (tokN key, ws) :: blocks m (r.drop (2 * n))
        | _, _ => []
      let al := (blocks (tokN na) rest).map (fun (key, ws) => (key, fun (d : Nat) => if d == 0 then (1 : Rat) else ws.getD (d - 1) 1))
      match g.deltaConformityW (start.toInt?.getD 0) (delta.toInt?.getD 0) al (tokN pt) with
      | .ok none => .null
      | .ok (some l) => .obj (l.map (fun (a, sc) =>
          (toString (a / 100) ++ "." ++ (if a % 100 < 10 then "0" else "") ++ toString (a % 100), J.obj [("a",
            .arr ((sortByKey (fun (p : Node × Rat) => [(p.1 : Int)]) sc).map (fun p => .arr [jn p.1, jrat p.2])))])))
      | .error e => jerr e)
  | "confp" :: k :: start :: delta :: pt :: psize :: nl :: rest =>
    -- confp slot start delta ptype profile_size  nl l1..  na a1..  nt (node label value)*
    withG s k (fun g =>
      let nl := tokN nl
      let labels := (rest.take nl).map tokN
      let rest := rest.drop nl
      let na := tokN (rest.headD "0")
      let alphas := ((rest.drop 1).take na).map (fun a => tokN a / 100)
      let rest := rest.drop (1 + na)
      let nt := tokN (rest.headD "0")
      let rec triples : Nat → List String → List (Node × Nat × Nat)
        | 0, _ => []
        | m + 1, a :: b :: c :: r => (tokN a, tokN b, tokN c) :: triples m r
        | _, _ => []
      let tr := triples nt (rest.drop 1)
      let tab : LabelTable := fun l n => ((tr.find? (fun e => e.1 == n && e.2.1 == l)).map (·.2.2)).getD 0
      match g.deltaConformityP tab (start.toInt?.getD 0) (delta.toInt?.getD 0) alphas labels (tokN psize) (tokN pt) with
      | .ok none => .null
      | .ok (some l) => .obj (l.map (fun (a, prs) => (alphaKey a, J.obj (prs.map (fun (pr, sc) =>
          ("_".intercalate (pr.map (fun l => "L" ++ toString l)),
           .arr ((sortByKey (fun (p : Node × Rat) => [(p.1 : Int)]) sc).map (fun p => .arr [jn p.1, jrat p.2]))))))))
      | .error e => jerr e)
  | "confh" :: k :: start :: delta :: pt :: psize :: rest =>
    -- confh slot start delta ptype profile_size | nl l.. | na a.. | nhl l.. | nh (l v rank).. | ns (n l v).. | ndp (n l).. | nd (n l t v)..
    withG s k (fun g =>
      let (labels, alphas, tab, hier) := parseHier rest
      match g.deltaConformityH tab hier (start.toInt?.getD 0) (delta.toInt?.getD 0) alphas labels (tokN psize) (tokN pt) with
      | .ok none => .null
      | .ok (some l) => .obj (l.map (fun (a, prs) => (alphaKey a, J.obj (prs.map (fun (pr, sc) =>
          ("_".intercalate (pr.map (fun l => "L" ++ toString l)),
           .arr ((sortByKey (fun (p : Node × Rat) => [(p.1 : Int)]) sc).map (fun p => .arr [jn p.1, jrat p.2]))))))))
      | .error e => jerr e)
  | "sconfh" :: k :: delta :: pt :: psize :: rest =>
    -- the sliding driver with the same tables: sconfh slot delta ptype profile_size | nl l.. | na a.. | ...
    withG s k (fun g =>
      let (labels, alphas, tab, hier) := parseHier rest
      let profs := profilesOf labels (tokN psize)
      let np := profs.length
      match g.slidingDeltaConformityH tab hier (delta.toInt?.getD 0) alphas labels (tokN psize) (tokN pt) with
      | .error e => jerr e
      | .ok res =>
        let ais := (res.map (fun e => e.1 / np)).eraseDups
        .obj (ais.map (fun i => (alphaKey (alphas.getD i 0),
          J.obj ((res.filter (fun e => e.1 / np == i)).map (fun e =>
            ("_".intercalate ((profs.getD (e.1 % np) []).map (fun l => "L" ++ toString l)),
             .arr ((sortByKey (fun (p : Node × List (Int × Rat)) => [(p.1 : Int)]) e.2).map (fun p =>
               .arr [jn p.1, .arr (p.2.map (fun tv => .arr [ji tv.1, jrat tv.2]))]))))))))) 
  | "sconf" :: k :: delta :: pt :: n :: alphas =>
    withG s k (fun g =>
      match g.slidingDeltaConformity (delta.toInt?.getD 0) ((alphas.take (tokN n)).map (fun a => tokN a / 100)) (tokN pt) with
      | .ok r => sconfJ r
      | .error e => jerr e)
  | _ => (s, .str "E:other:bad-op")

partial def loop (h : IO.FS.Stream) (out : IO.FS.Stream) (s : St) : IO Unit := do
  let line ← h.getLine
  if line.isEmpty then return ()
  let w := (line.trimAscii.toString.splitOn " ").filter (· != "")
  if w.isEmpty then
    loop h out s
  else
    let (s', j) := exec s w
    out.putStrLn j.render
    loop h out s'

def main : IO Unit := do
  let out ← IO.getStdout
  loop (← IO.getStdin) out { slots := [] }
  out.flush
