import DynetxModel.Conformity
/-
  algorithms/assortativity.py with label PROFILES: `labels` is a list of categorical node attributes,
  `profiles = combinations(labels, 1) ++ … ++ combinations(labels, profile_size)`, and the similarity of a
  profile is the product over its labels of the per-label frequency term (`s *= sum(sgn.values()) / len(nodes)`).
  Node attributes are given as a table `tab label node = value` (static labels, no hierarchies).
  `Conformity.lean` is the special case of the single profile made of the single label stored in `Graph.nodes`.
-/
namespace Dynetx

abbrev LabelTable := Nat → Node → Nat

/-- `itertools.combinations(l, k)` (positions in lexicographic order) -/
def combinations {α} : Nat → List α → List (List α)
  | 0, _ => [[]]
  | _ + 1, [] => []
  | k + 1, x :: xs => (combinations k xs).map (x :: ·) ++ combinations (k + 1) xs

/-- `profiles`: the combinations of sizes 1 … `profileSize` -/
def profilesOf (labels : List Nat) (profileSize : Nat) : List (List Nat) :=
  (List.range profileSize).flatMap (fun i => combinations (i + 1) labels)

/-- one pass of the `for label in labels` loop of `__label_frequency` for the label whose values are `lab` -/
def labelFrequencyL (g : Graph) (lab : Node → Nat) (u : Node) (nodes : List Node) (tDist : List (Node × Nat)) : Rat :=
  let au := lab u
  let sgn := nodes.map (fun v =>
    let av := lab v
    let s : Rat := if au == av then 1 else -1
    let td : Int := (((tDist.find? (fun e => e.1 == v)).map (·.2)).getD 0 : Nat)
    let vn := g.neighbors v (some td)
    let cnt := (vn.filter (fun x => lab x == av)).length
    let f : Rat := if vn.length > 0 then (cnt : Rat) / (vn.length : Rat) else 0
    let f := if f > 0 then f else 1
    s * f)
  (sgn.foldl (· + ·) 0) / (nodes.length : Rat)

/-- `__label_frequency(g, u, nodes, profile, …)`: `s = 1; for label in profile: s *= …` -/
def profileFrequency (g : Graph) (tab : LabelTable) (profile : List Nat) (u : Node) (nodes : List Node)
    (tDist : List (Node × Nat)) : Rat :=
  profile.foldl (fun s l => s * labelFrequencyL g (tab l) u nodes tDist) 1

/-- the score of one node for one exponent and one profile -/
def nodeScoreP (g : Graph) (tab : LabelTable) (profile : List Nat) (sp : List ((Node × Node) × List TPath))
    (ptype alpha : Nat) (u : Node) : Rat :=
  let td := tDistances sp ptype u
  let dist := remapDistances td
  let ranks := sortedSetNat (dist.map (·.2))
  let raw := (ranks.map (fun (d : Nat) =>
    if d == 0 then (0 : Rat)
    else
      let nodes := (dist.filter (fun e => e.2 == d)).map (·.1)
      profileFrequency g tab profile u nodes td / (((d : Nat) : Rat) ^ alpha))).foldl (· + ·) 0
  match ranks.getLast? with
  | none => raw
  | some mx => raw / normConst mx alpha

/-- `delta_conformity(dg, start, delta, alphas, labels, profile_size, path_type=…)`:
    `ValueError` for `profile_size > len(labels)` or an empty `alphas` / `labels`; `none` when the window is empty;
    otherwise, per exponent and per profile, the score of every node present at `start` in the slice -/
def Graph.deltaConformityP (dg : Graph) (tab : LabelTable) (start delta : Int) (alphas : List Nat)
    (labels : List Nat) (profileSize : Nat) (ptype : Nat) :
    Except Err (Option (List (Nat × List (List Nat × List (Node × Rat))))) :=
  if profileSize > labels.length then .error .value
  else if alphas.length < 1 || labels.length < 1 then .error .value
  else
  match dg.timeSlice start (some (start + delta)) with
  | .error e => .error e
  | .ok g =>
    let tids := g.ids
    match minList tids, maxList tids with
    | some mmid, some mid =>
      match g.allTimeRespectingPaths (some (max start mmid)) (some (min mid (start + delta))) none with
      | .error e => .error e
      | .ok sp =>
        let nodes := g.nodesAt (some start)
        .ok (some (alphas.map (fun a => (a, (profilesOf labels profileSize).map (fun pr =>
          (pr, nodes.map (fun u => (u, nodeScoreP g tab pr sp ptype a u))))))))
    | _, _ => .ok none

end Dynetx
