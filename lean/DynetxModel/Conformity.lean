import DynetxModel.Paths
import DynetxModel.Derive
/-
  algorithms/assortativity.py: delta_conformity / sliding_delta_conformity for one static categorical
  label (the attribute token of a node), no hierarchies, natural-number exponents, exact rationals.
-/
namespace Dynetx

def Graph.label (g : Graph) (n : Node) : Nat := ((g.nodes.find? (fun p => p.1 == n)).map (·.2)).getD 0

def selectPaths (a : Annot) (ptype : Nat) : List TPath :=
  match ptype with
  | 0 => a.shortest
  | 1 => a.fastest
  | 2 => a.foremost
  | 3 => a.fastestShortest
  | _ => a.shortestFastest

def minNat : List Nat → Option Nat
  | [] => none
  | x :: xs => match minNat xs with
    | none => some x
    | some m => some (min x m)

/-- `t_distances[u]`: reached node ↦ min hop count of the selected optimal paths (insertion ordered dict) -/
def tDistances (sp : List ((Node × Node) × List TPath)) (ptype : Nat) (u : Node) : List (Node × Nat) :=
  sp.foldl (fun acc (kp : (Node × Node) × List TPath) =>
    if kp.1.1 == u && kp.1.1 != kp.1.2 then
      match minNat ((selectPaths (annotatePaths kp.2) ptype).map (·.length)) with
      | some m => if acc.any (fun e => e.1 == kp.1.2) then acc.map (fun e => if e.1 == kp.1.2 then (e.1, m) else e)
                  else acc ++ [(kp.1.2, m)]
      | none => acc
    else acc) []

def sortedSetNat (l : List Nat) : List Nat := (l.mergeSort (fun a b => decide (a ≤ b))).eraseDups

/-- `__remap_path_distances`: value ↦ 1 + its rank among the distinct values -/
def remapDistances (td : List (Node × Nat)) : List (Node × Nat) :=
  let vals := sortedSetNat (td.map (·.2))
  td.map (fun (n, d) => (n, (vals.idxOf d) + 1))

/-- `__label_frequency` for a single static label -/
def labelFrequency (g : Graph) (u : Node) (nodes : List Node) (tDist : List (Node × Nat)) : Rat :=
  let au := g.label u
  let sgn := nodes.map (fun v =>
    let av := g.label v
    let s : Rat := if au == av then 1 else -1
    let td : Int := (((tDist.find? (fun e => e.1 == v)).map (·.2)).getD 0 : Nat)
    let vn := g.neighbors v (some td)
    let cnt := (vn.filter (fun x => g.label x == av)).length
    let f : Rat := if vn.length > 0 then (cnt : Rat) / (vn.length : Rat) else 0
    let f := if f > 0 then f else 1
    s * f)
  (sgn.foldl (· + ·) 0) / (nodes.length : Rat)

def normConst (maxDist alpha : Nat) : Rat :=
  ((List.range maxDist).map (fun i => (1 : Rat) / (((i + 1 : Nat) : Rat) ^ alpha))).foldl (· + ·) 0

/-- the score of one node for one exponent -/
def nodeScore (g : Graph) (sp : List ((Node × Node) × List TPath)) (ptype alpha : Nat) (u : Node) : Rat :=
  let td := tDistances sp ptype u
  let dist := remapDistances td
  let ranks := sortedSetNat (dist.map (·.2))
  let raw := (ranks.map (fun (d : Nat) =>
    if d == 0 then (0 : Rat)
    else
      let nodes := (dist.filter (fun e => e.2 == d)).map (·.1)
      labelFrequency g u nodes td / (((d : Nat) : Rat) ^ alpha))).foldl (· + ·) 0
  match ranks.getLast? with
  | none => raw
  | some mx => raw / normConst mx alpha

/-- `delta_conformity(dg, start, delta, alphas, ["a"], path_type)`: `none` when the window is empty;
    otherwise, per exponent, the score of every node present at `start` in the slice -/
def Graph.deltaConformity (dg : Graph) (start delta : Int) (alphas : List Nat) (ptype : Nat) :
    Except Err (Option (List (Nat × List (Node × Rat)))) :=
  match dg.timeSlice start (some (start + delta)) with
  | .error e => .error e
  | .ok g =>
    let tids := g.ids
    match minList tids, maxList tids with
    | some mmid, some mid =>
      match g.allTimeRespectingPaths (some (max start mmid)) (some (min mid (start + delta))) none with
      | .error e => .error e
      | .ok sp =>
        let nodes := g.nodesAt (some start)
        .ok (some (alphas.map (fun a => (a, nodes.map (fun u => (u, nodeScore g sp ptype a u))))))
    | _, _ => .ok none

/-- `sliding_delta_conformity`: per exponent and node the series `(t + delta, score)` -/
def Graph.slidingDeltaConformity (dg : Graph) (delta : Int) (alphas : List Nat) (ptype : Nat) :
    Except Err (List (Nat × List (Node × List (Int × Rat)))) :=
  let tids := dg.ids
  match tids.getLast? with
  | none => .ok []
  | some lastId =>
    (tids.filter (fun t => t + delta < lastId)).foldlM (fun acc t =>
      match dg.deltaConformity t delta alphas ptype with
      | .error e => .error e
      | .ok none => .ok acc
      | .ok (some r) =>
        .ok (r.foldl (fun (acc : List (Nat × List (Node × List (Int × Rat)))) (ar : Nat × List (Node × Rat)) =>
          let cur := ((acc.find? (fun e => e.1 == ar.1)).map (·.2)).getD []
          let cur' := ar.2.foldl (fun (c : List (Node × List (Int × Rat))) (nv : Node × Rat) =>
            if c.any (fun e => e.1 == nv.1) then c.map (fun e => if e.1 == nv.1 then (e.1, e.2 ++ [(t + delta, nv.2)]) else e)
            else c ++ [(nv.1, [(t + delta, nv.2)])]) cur
          if acc.any (fun e => e.1 == ar.1) then acc.map (fun e => if e.1 == ar.1 then (e.1, cur') else e)
          else acc ++ [(ar.1, cur')]) acc)) []

/-! ### any exponent: the powers `d ** alpha` as a table of positive weights

  `partial = sim / (dist ** alpha)` and `norm = sum(d ** -alpha for d in 1..max_dist)` only use the numbers
  `w d = d ** alpha`.  For a natural exponent `w d = (d : Rat) ^ alpha` (`nodeScore` above); for a fractional
  exponent Python computes a positive float, which is a rational number: the model below takes the table `w` as a
  parameter, so it covers every exponent (theorem `C20W_bound`: the score lies in [-1, 1] for EVERY table of positive
  weights). -/

def normConstW (w : Nat → Rat) (maxDist : Nat) : Rat :=
  ((List.range maxDist).map (fun i => (1 : Rat) / w (i + 1))).foldl (· + ·) 0

def nodeScoreW (g : Graph) (sp : List ((Node × Node) × List TPath)) (ptype : Nat) (w : Nat → Rat) (u : Node) : Rat :=
  let td := tDistances sp ptype u
  let dist := remapDistances td
  let ranks := sortedSetNat (dist.map (·.2))
  let raw := (ranks.map (fun (d : Nat) =>
    if d == 0 then (0 : Rat)
    else
      let nodes := (dist.filter (fun e => e.2 == d)).map (·.1)
      labelFrequency g u nodes td / w d)).foldl (· + ·) 0
  match ranks.getLast? with
  | none => raw
  | some mx => raw / normConstW w mx

/-- `delta_conformity` with each exponent given by its key and its table of powers -/
def Graph.deltaConformityW (dg : Graph) (start delta : Int) (alphas : List (Nat × (Nat → Rat))) (ptype : Nat) :
    Except Err (Option (List (Nat × List (Node × Rat)))) :=
  match dg.timeSlice start (some (start + delta)) with
  | .error e => .error e
  | .ok g =>
    let tids := g.ids
    match minList tids, maxList tids with
    | some mmid, some mid =>
      match g.allTimeRespectingPaths (some (max start mmid)) (some (min mid (start + delta))) none with
      | .error e => .error e
      | .ok sp =>
        let nodes := g.nodesAt (some start)
        .ok (some (alphas.map (fun a => (a.1, nodes.map (fun u => (u, nodeScoreW g sp ptype a.2 u))))))
    | _, _ => .ok none

/-- the nested-dictionary accumulation of `sliding_delta_conformity` over ANY per-instant function `f` (the call
    `delta_conformity(dg, t, delta, …)` with whatever further arguments): `Graph.slidingDeltaConformity` is the instance
    `f t = dg.deltaConformity t delta alphas ptype` (`slidingDeltaConformity_eq_slidingOf`) -/
def slidingOf (tids : List Int) (delta : Int) (f : Int → Except Err (Option (List (Nat × List (Node × Rat))))) :
    Except Err (List (Nat × List (Node × List (Int × Rat)))) :=
  match tids.getLast? with
  | none => .ok []
  | some lastId =>
    (tids.filter (fun t => t + delta < lastId)).foldlM (fun acc t =>
      match f t with
      | .error e => .error e
      | .ok none => .ok acc
      | .ok (some r) =>
        .ok (r.foldl (fun (acc : List (Nat × List (Node × List (Int × Rat)))) (ar : Nat × List (Node × Rat)) =>
          let cur := ((acc.find? (fun e => e.1 == ar.1)).map (·.2)).getD []
          let cur' := ar.2.foldl (fun (c : List (Node × List (Int × Rat))) (nv : Node × Rat) =>
            if c.any (fun e => e.1 == nv.1) then c.map (fun e => if e.1 == nv.1 then (e.1, e.2 ++ [(t + delta, nv.2)]) else e)
            else c ++ [(nv.1, [(t + delta, nv.2)])]) cur
          if acc.any (fun e => e.1 == ar.1) then acc.map (fun e => if e.1 == ar.1 then (e.1, cur') else e)
          else acc ++ [(ar.1, cur')]) acc)) []

end Dynetx
