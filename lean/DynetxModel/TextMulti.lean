import DynetxModel.IO
/-
  The text layer of the readers for comment markers and delimiters of SEVERAL characters (`comments='//'`,
  `delimiter='::'`): `line.find(comments)` is the first occurrence of the marker as a contiguous substring, and
  `s.split(delimiter)` scans from the left for non-overlapping occurrences of the delimiter.
  `IO.lean` has the one-character versions; they are the instances `[c]` (DynetxProofs/C18Multi.lean).
-/
namespace Dynetx

/-- `line[:line.find(cm)]` (the whole line when `cm` does not occur; `find('')` is 0) -/
def cutCommentS (cm : List Char) : List Char → List Char
  | [] => []
  | c :: cs => if cm.isPrefixOf (c :: cs) then [] else c :: cutCommentS cm cs

/-- the scan of `s.split(d)` for a non-empty `d`; `fuel` bounds the recursion (the length of the text plus one) -/
def splitOnSGo (d : List Char) : Nat → List Char → List Char → List (List Char)
  | 0, cur, _ => [cur.reverse]
  | fuel + 1, cur, l =>
    if d.isPrefixOf l then cur.reverse :: splitOnSGo d fuel [] (l.drop d.length)
    else match l with
      | [] => [cur.reverse]
      | c :: cs => splitOnSGo d fuel (c :: cur) cs

/-- `s.split(d)`; `none` is Python's `ValueError: empty separator` -/
def splitOnS (d : List Char) (l : List Char) : Option (List (List Char)) :=
  if d.isEmpty then none else some (splitOnSGo d (l.length + 1) [] l)

inductive FieldsS where
  | skipped                       -- empty after the comment cut
  | sepError                      -- empty separator
  | fields (fs : List (List Char))

def fieldsOfS (cm : List Char) (delim : Option (List Char)) (line : List Char) : FieldsS :=
  let l := cutCommentS cm line
  if l.isEmpty then .skipped
  else
    let s := strip l
    match delim with
    | none => .fields (splitWs s)
    | some d => match splitOnS d s with
      | none => .sepError
      | some fs => .fields fs

inductive RowSS where
  | skip | bad | sepError
  | row (u v : Node) (t : Int) (e : Option Int)

def snapRowS (cm : List Char) (delim : Option (List Char)) (line : List Char) : RowSS :=
  match fieldsOfS cm delim line with
  | .skipped => .skip
  | .sepError => .sepError
  | .fields fs =>
    match fs with
    | [u, v, t] =>
      (match nodeOf u, nodeOf v, intOf t with
        | some u, some v, some t => .row u v t none
        | _, _, _ => .bad)
    | u :: v :: t :: e :: _ =>
      (match nodeOf u, nodeOf v, intOf t, intOf e with
        | some u, some v, some t, some e => .row u v t (some e)
        | _, _, _, _ => .bad)
    | _ => .skip

inductive RowIS where
  | skip | bad | sepError
  | row (r : Ev)

def intRowS (cm : List Char) (delim : Option (List Char)) (line : List Char) : RowIS :=
  match fieldsOfS cm delim line with
  | .skipped => .skip
  | .sepError => .sepError
  | .fields [u, v, op, t] =>
    (match nodeOf u, nodeOf v, intOf t with
      | some u, some v, some t => .row { t, u, v, plus := (op == ['+']) }
      | _, _, _ => .bad)
  | .fields _ => .skip

/-- `parse_snapshots(lines, comments=cm, delimiter=delim, nodetype=int, timestamptype=int)`;
    an empty separator is `ValueError` at the first line that reaches the split -/
def parseSnapshotsTextS (directed : Bool) (cm : List Char) (delim : Option (List Char)) (lines : List (List Char)) :
    Graph × Option Err :=
  let rec go (g : Graph) : List (List Char) → Graph × Option Err
    | [] => (g, none)
    | l :: rest =>
      match snapRowS cm delim l with
      | .skip => go g rest
      | .bad => (g, some .type)
      | .sepError => (g, some .value)
      | .row u v t e =>
        match g.addInteraction u v (some t) e with
        | (g', none) => go g' rest
        | (g', some err) => (g', some err)
  go (Graph.empty directed true) lines

def parseInteractionsTextS (directed : Bool) (cm : List Char) (delim : Option (List Char)) (lines : List (List Char)) :
    Graph × Option Err :=
  let rec go (g : Graph) : List (List Char) → Graph × Option Err
    | [] => (g, none)
    | l :: rest =>
      match intRowS cm delim l with
      | .skip => go g rest
      | .bad => (g, some .type)
      | .sepError => (g, some .value)
      | .row r =>
        match g.replayRow r with
        | (g', none) => go g' rest
        | (g', some err) => (g', some err)
  go (Graph.empty directed true) lines

end Dynetx
