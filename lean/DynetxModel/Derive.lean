import DynetxModel.Query
/-
  time_slice, to_directed, to_undirected.
-/
namespace Dynetx

/-- fold of `add_interaction` calls that stops at the first exception (as a Python loop does) -/
def Graph.addMany (g : Graph) : List (Node × Node × Int × Option Int) → Graph × Option Err
  | [] => (g, none)
  | (u, v, t, e) :: rest =>
    match g.addInteraction u v (some t) e with
    | (g', none) => addMany g' rest
    | (g', some err) => (g', some err)

/-- `(u, v, timeline oldest-first)` as yielded by `interactions_iter()` (undirected de-duplication) -/
def Graph.interactionsData (g : Graph) : List (Node × Node × List Span) :=
  (g.interactions none none).map (fun p => (p.1, p.2, ((g.timeline p.1 p.2).getD [])))

/-- the same through `out_interactions_iter()` -/
def Graph.outInteractionsData (g : Graph) : List (Node × Node × List Span) :=
  (g.outInteractions none none).map (fun p => (p.1, p.2, ((g.timeline p.1 p.2).getD [])))

/-- the four clipping cases of `time_slice`, as coded; `none` = interval skipped -/
def clip (tFrom tTo a b : Int) : Option (Int × Int) :=
  if tTo < a || tFrom > b then none
  else if tFrom ≥ a && tTo ≤ b then some (tFrom, tTo)
  else if a ≥ tFrom && tTo ≤ b then some (a, tTo)
  else if tFrom ≥ a && b ≤ tTo then some (tFrom, b)
  else if tFrom ≤ a && b ≤ tTo then some (a, b)
  else none

def sliceCalls (tFrom tTo : Int) (d : List (Node × Node × List Span)) : List (Node × Node × Int × Option Int) :=
  d.flatMap (fun (u, v, tl) => tl.filterMap (fun (a, b) =>
    (clip tFrom tTo a b).map (fun (x, y) => (u, v, x, some (y + 1)))))

def copyAttrs (src : List (Node × Nat)) (dst : List (Node × Nat)) : List (Node × Nat) :=
  dst.map (fun p => (p.1, ((src.find? (fun q => q.1 == p.1)).map (·.2)).getD p.2))

/-- `time_slice(t_from, t_to)` -/
def Graph.timeSlice (g : Graph) (tFrom : Int) (tTo : Option Int) : Except Err Graph :=
  let tTo' := tTo.getD tFrom
  if tTo.isSome && tTo' < tFrom then .error .value
  else
    let h := Graph.empty g.directed true
    let d := if g.directed then g.outInteractionsData else g.interactionsData
    match h.addMany (sliceCalls tFrom tTo' d) with
    | (_, some e) => .error e
    | (h, none) => .ok { h with nodes := copyAttrs g.nodes h.nodes }

/-- `DynGraph.to_directed()` -/
def Graph.toDirected (g : Graph) : Except Err Graph :=
  let h := { Graph.empty true true with nodes := g.nodes.map (fun (p : Node × Nat) => (p.1, 0)) }
  let calls := g.interactionsData.flatMap (fun (u, v, tl) => tl.map (fun (a, b) => (u, v, a, some (b + 1))))
  match h.addMany calls with
  | (_, some e) => .error e
  | (h, none) => .ok { h with nodes := g.nodes, gattr := g.gattr }

def instants (tl : List Span) : List Int := tl.flatMap (fun s => irange s.1 s.2)

/-- `sorted(set(l))` -/
def sortedSet (l : List Int) : List Int := (l.mergeSort (fun a b => decide (a ≤ b))).eraseDups

/-- maximal runs of an ascending duplicate-free list -/
def runsGo : Option (Int × Int) → List Int → List (Int × Int)
  | none, [] => []
  | some r, [] => [r]
  | none, x :: xs => runsGo (some (x, x)) xs
  | some (a, b), x :: xs => if x == b + 1 then runsGo (some (a, x)) xs else (a, b) :: runsGo (some (x, x)) xs

def runsOf (l : List Int) : List (Int × Int) := runsGo none l

/-- the `merged` dictionary of `to_undirected`: first orientation met wins -/
def mergedGo (g : Graph) (recip : Bool) : List (Node × Node × List Span) → List (Node × Node × List Int) → List (Node × Node × List Int)
  | [], acc => acc
  | (u, v, tl) :: rest, acc =>
    if acc.any (fun (a, b, _) => a == v && b == u) then mergedGo g recip rest acc
    else
      let fw := instants tl
      let bw := instants ((g.timeline v u).getD [])
      let s := if recip then fw.filter (fun x => bw.contains x) else fw ++ bw
      mergedGo g recip rest (acc ++ [(u, v, sortedSet s)])

/-- `DynDiGraph.to_undirected(reciprocal)` -/
def Graph.toUndirected (g : Graph) (recip : Bool) : Except Err Graph :=
  let h := { Graph.empty false true with nodes := g.nodes.map (fun (p : Node × Nat) => (p.1, 0)) }
  let m := mergedGo g recip g.outInteractionsData []
  let calls := m.flatMap (fun (u, v, s) => (runsOf s).map (fun (a, b) => (u, v, a, some (b + 1))))
  match h.addMany calls with
  | (_, some e) => .error e
  | (h, none) => .ok { h with nodes := g.nodes, gattr := g.gattr }

end Dynetx
