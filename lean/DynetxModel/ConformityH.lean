import DynetxModel.ConformityP
/-
  algorithms/assortativity.py, the remaining branches of `__label_frequency` / `__distance`:

  * TIME-VARYING labels: a node attribute may be a dictionary instant ↦ value (`isinstance(a, dict)`).
    The value of the root `u` is read at `start` (`a_u[start]`, `KeyError` when missing); the value of a reached
    node `v` is read at `t_dist[v]` and `v` is SKIPPED when it has no value there (`continue`; the denominator
    `len(nodes)` does not change); the value of a neighbour `x` of `v` is read at `t_dist[v]` (`KeyError` when missing).
  * HIERARCHIES: for a label with a hierarchy (a dictionary value ↦ rank) two different values are at distance
    `-abs(rank(a) - rank(b)) / (len(hierarchy) - 1)` instead of `-1` (`KeyError` for a value without rank).

  Everything else (profiles, the per-distance sum, the normalisation, the window, the argument errors) is as in
  `ConformityP.lean`; `ConformityP` is the special case of static labels without hierarchies
  (theorem `C20H_static` in DynetxProofs/C20Hier.lean).
-/
namespace Dynetx

/-- a node attribute: a plain value, or a dictionary instant ↦ value -/
inductive LabelVal where
  | static (v : Nat)
  | dyn (tab : List (Int × Nat))
  deriving Repr

/-- the value at instant `t`: a static value at every `t`; `tab.get(t)` for a dictionary -/
def LabelVal.at? : LabelVal → Int → Option Nat
  | .static v, _ => some v
  | .dyn tab, t => (tab.find? (fun e => e.1 == t)).map (·.2)

abbrev LabelTableH := Nat → Node → LabelVal

/-- `hierarchies[label]`: value ↦ rank (an insertion-ordered dictionary, distinct keys) -/
abbrev Hierarchy := List (Nat × Int)

/-- `hierarchies`: label ↦ its hierarchy when it has one (`label not in hierarchies` = `none`) -/
abbrev Hierarchies := Nat → Option Hierarchy

def absInt (x : Int) : Int := if x < 0 then -x else x

/-- `__distance(label, v1, v2, hierarchies)` -/
def distanceH (h : Option Hierarchy) (v1 v2 : Nat) : Except Err Rat :=
  match h with
  | none => .ok (-1)
  | some tab =>
    match tab.find? (fun e => e.1 == v1), tab.find? (fun e => e.1 == v2) with
    | some a, some b =>
      if tab.length == 1 then .error .zeroDiv
      else .ok (-((absInt (a.2 - b.2) : Int) : Rat) / (((tab.length : Nat) : Rat) - 1))
    | _, _ => .error .key

/-- all results, or the first exception (a Python loop stops at the first element that raises) -/
def allOk {α} : List (Except Err α) → Except Err (List α)
  | [] => .ok []
  | .error e :: _ => .error e
  | .ok a :: r =>
    match allOk r with
    | .ok l => .ok (a :: l)
    | .error e => .error e

/-- `a_x[t]` for a neighbour: the value, or `KeyError` -/
def valueOrKeyError (o : Option Nat) : Except Err Nat :=
  match o with
  | some a => .ok a
  | none => .error .key

/-- the body of `for v in nodes` for one reached node: `none` is the `continue` branch -/
def termH (g : Graph) (lab : Node → LabelVal) (h : Option Hierarchy) (au : Nat) (tDist : List (Node × Nat))
    (v : Node) : Except Err (Option Rat) :=
  let td : Int := (((tDist.find? (fun e => e.1 == v)).map (·.2)).getD 0 : Nat)
  match (lab v).at? td with
  | none => .ok none
  | some av =>
    match (if au == av then (.ok 1 : Except Err Rat) else distanceH h au av) with
    | .error e => .error e
    | .ok s =>
      let vn := g.neighbors v (some td)
      match allOk (vn.map (fun x => valueOrKeyError ((lab x).at? td))) with
      | .error e => .error e
      | .ok axs =>
        let cnt := (axs.filter (fun ax => ax == av)).length
        let f : Rat := if vn.length > 0 then (cnt : Rat) / (vn.length : Rat) else 0
        let f := if f > 0 then f else 1
        .ok (some (s * f))

/-- one pass of `for label in labels` -/
def labelFrequencyH (g : Graph) (lab : Node → LabelVal) (h : Option Hierarchy) (u : Node) (nodes : List Node)
    (tDist : List (Node × Nat)) (start : Int) : Except Err Rat :=
  match (lab u).at? start with
  | none => .error .key
  | some au =>
    match allOk (nodes.map (termH g lab h au tDist)) with
    | .error e => .error e
    | .ok ts => .ok (((ts.filterMap id).foldl (· + ·) 0) / (nodes.length : Rat))

/-- `__label_frequency(g, u, nodes, profile, hierarchies, t_dist, start)` -/
def profileFrequencyH (g : Graph) (tab : LabelTableH) (hier : Hierarchies) (profile : List Nat) (u : Node)
    (nodes : List Node) (tDist : List (Node × Nat)) (start : Int) : Except Err Rat :=
  profile.foldl (fun (s : Except Err Rat) l =>
    match s with
    | .error e => .error e
    | .ok s =>
      match labelFrequencyH g (tab l) (hier l) u nodes tDist start with
      | .error e => .error e
      | .ok x => .ok (s * x)) (.ok 1)

/-- the score of one node for one exponent and one profile -/
def nodeScoreH (g : Graph) (tab : LabelTableH) (hier : Hierarchies) (profile : List Nat)
    (sp : List ((Node × Node) × List TPath)) (ptype alpha : Nat) (start : Int) (u : Node) : Except Err Rat :=
  let td := tDistances sp ptype u
  let dist := remapDistances td
  let ranks := sortedSetNat (dist.map (·.2))
  match allOk (ranks.map (fun (d : Nat) =>
      if d == 0 then (.ok 0 : Except Err Rat)
      else
        let nodes := (dist.filter (fun e => e.2 == d)).map (·.1)
        match profileFrequencyH g tab hier profile u nodes td start with
        | .error e => .error e
        | .ok s => .ok (s / (((d : Nat) : Rat) ^ alpha)))) with
  | .error e => .error e
  | .ok parts =>
    let raw := parts.foldl (· + ·) 0
    match ranks.getLast? with
    | none => .ok raw
    | some mx => .ok (raw / normConst mx alpha)

/-- `delta_conformity(dg, start, delta, alphas, labels, profile_size, hierarchies, path_type)` -/
def Graph.deltaConformityH (dg : Graph) (tab : LabelTableH) (hier : Hierarchies) (start delta : Int) (alphas : List Nat)
    (labels : List Nat) (profileSize : Nat) (ptype : Nat) :
    Except Err (Option (List (Nat × List (List Nat × List (Node × Rat))))) :=
  if profileSize > labels.length then .error .value
  else if alphas.length < 1 || labels.length < 1 then .error .value
  else
  match dg.timeSlice start (some (start + delta)) with
  | .error e => .error e
  | .ok g =>
    let tids := g.ids
    match minList tids, maxList tids with
    | some mmid, some mid =>
      match g.allTimeRespectingPaths (some (max start mmid)) (some (min mid (start + delta))) none with
      | .error e => .error e
      | .ok sp =>
        let nodes := g.nodesAt (some start)
        match allOk (alphas.map (fun a =>
            match allOk ((profilesOf labels profileSize).map (fun pr =>
                match allOk (nodes.map (fun u =>
                    match nodeScoreH g tab hier pr sp ptype a start u with
                    | .error e => .error e
                    | .ok x => (.ok (u, x) : Except Err (Node × Rat)))) with
                | .error e => .error e
                | .ok sc => (.ok (pr, sc) : Except Err (List Nat × List (Node × Rat))))) with
            | .error e => .error e
            | .ok prs => (.ok (a, prs) : Except Err (Nat × List (List Nat × List (Node × Rat)))))) with
        | .error e => .error e
        | .ok r => .ok (some r)
    | _, _ => .ok none

/-- one flat key per (exponent, profile) of a result: position of the exponent × number of profiles + position of the
    profile.  Every successful call returns the exponents and the profiles in the same order (`C20H_result`), so a key
    denotes the same (exponent, profile) at every instant. -/
def flattenRes (np : Nat) (r : List (Nat × List (List Nat × List (Node × Rat)))) : List (Nat × List (Node × Rat)) :=
  (r.zipIdx).flatMap (fun (ai : (Nat × List (List Nat × List (Node × Rat))) × Nat) =>
    (ai.1.2.zipIdx).map (fun (pj : (List Nat × List (Node × Rat)) × Nat) => (ai.2 * np + pj.2, pj.1.2)))

/-- `sliding_delta_conformity(dg, delta, alphas, labels, profile_size, hierarchies, path_type)`: the series of every
    (exponent, profile, node), keyed by `flattenRes` -/
def Graph.slidingDeltaConformityH (dg : Graph) (tab : LabelTableH) (hier : Hierarchies) (delta : Int) (alphas : List Nat)
    (labels : List Nat) (profileSize : Nat) (ptype : Nat) : Except Err (List (Nat × List (Node × List (Int × Rat)))) :=
  slidingOf dg.ids delta (fun t =>
    match dg.deltaConformityH tab hier t delta alphas labels profileSize ptype with
    | .error e => .error e
    | .ok none => .ok none
    | .ok (some r) => .ok (some (flattenRes (profilesOf labels profileSize).length r)))

end Dynetx
