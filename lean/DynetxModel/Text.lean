import DynetxModel.IO
/-
  The writers' text layer for integer node ids: `str(int)` as decimal digits, fields joined by the
  one-character delimiter (`generate_snapshots` / `generate_interactions` lines, without the '\n'
  that `write_*` appends).  The readers' text layer is in IO.lean.
-/
namespace Dynetx

def digitChar (d : Nat) : Char := Char.ofNat (48 + d)

/-- `str(n)` for a natural number: decimal, most significant digit first, no leading zero -/
def natDigits (n : Nat) : List Char :=
  if n < 10 then [digitChar n] else natDigits (n / 10) ++ [digitChar (n % 10)]
decreasing_by omega

/-- `str(z)` for an integer -/
def intDigits (z : Int) : List Char :=
  match z with
  | .ofNat n => natDigits n
  | .negSucc n => '-' :: natDigits (n + 1)

/-- `delimiter.join(fields)` -/
def joinFields (d : Char) : List (List Char) → List Char
  | [] => []
  | [f] => f
  | f :: g :: fs => f ++ d :: joinFields d (g :: fs)

/-- the lines of `generate_snapshots(G, delimiter)` -/
def Graph.snapshotLines (g : Graph) (d : Char) : List (List Char) :=
  g.genSnapshots.map (fun (u, v, t) => joinFields d [natDigits u, natDigits v, intDigits t])

/-- the lines of `generate_interactions(G, delimiter)` -/
def Graph.interactionLines (g : Graph) (d : Char) : List (List Char) :=
  g.genInteractions.map (fun ev =>
    joinFields d [natDigits ev.u, natDigits ev.v, [if ev.plus then '+' else '-'], intDigits ev.t])

end Dynetx
