import DynetxModel.Paths
import DynetxModel.Text
/-
  algorithms/paths.py, text level: DAG nodes are the strings f"{node}_{tid}"; `time_respecting_paths`
  decodes them with `split("_")`, taking the last part as the time and re-joining the others with "_"
  (so node names may themselves contain '_').  `Paths.lean` works on pairs (node, time); this file is the
  string layer, and `DynetxProofs/C12Text.lean` proves that decoding inverts encoding for every name.
-/
namespace Dynetx

/-- `f"{n}_{tid}"` for a node whose `str()` is `name` -/
def occName (name : List Char) (t : Int) : List Char := name ++ '_' :: intDigits t

/-- the decoding of one DAG node name: `parts = s.split("_")`; two parts -> `(parts[0], parts[1])`,
    otherwise `("_".join(parts[0:-1]), parts[-1])` -/
def occDecode (s : List Char) : List Char × List Char :=
  match splitOnChar '_' s with
  | [a, b] => (a, b)
  | parts => (joinFields '_' parts.dropLast, parts.getLast?.getD [])

/-- one hop `(n_type(u), n_type(v), t_type(t))` from two consecutive DAG node names, for integer node ids -/
def hopDecode (first second : List Char) : Option Hop :=
  match nodeOf (occDecode first).1, nodeOf (occDecode second).1, intOf (occDecode second).2 with
  | some a, some b, some t => some (a, b, t)
  | _, _, _ => none

/-- the hop list of a DAG path given as node names (`zip(p, p[1:])`) -/
def hopsOfNames : List (List Char) → Option TPath
  | a :: b :: rest =>
    match hopDecode a b, hopsOfNames (b :: rest) with
    | some h, some hs => some (h :: hs)
    | _, _ => none
  | _ => some []

end Dynetx
