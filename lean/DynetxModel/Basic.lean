/-
  Model of dynetx (GiulioRossetti/dynetx) — basic data.
  Import-free Lean core only: this library is also compiled into the driver executable.
  Every definition here is total and executable; lemmas live in DynetxProofs.
-/
namespace Dynetx

abbrev Node := Nat
/-- a closed interval `[lo, hi]` of snapshot ids, as exposed in the `'t'` lists -/
abbrev Span := Int × Int

inductive Err where
  | networkx | value | key | index | type | nxni | zeroDiv
  deriving DecidableEq, Repr

/-- one stored pair. `tl` is the timeline with the **latest run first** (Python keeps it oldest
    first and works on `app[-1]`; the exposed list is `tl.reverse`). -/
structure Edge where
  u : Node
  v : Node
  tl : List Span
  deriving DecidableEq, Repr

/-- one entry of `time_to_edge`: `time_to_edge[t][(u, v, '+' | '-')]` -/
structure Ev where
  t : Int
  u : Node
  v : Node
  plus : Bool
  deriving DecidableEq, Repr

/-- `DynGraph` / `DynDiGraph` state.
    * `nodes`  : `_node` in insertion order, each with an opaque attribute token (0 = `{}`)
    * `edges`  : one entry per stored pair, in order of creation, orientation as first given
                 (the shared `datadict` of `_adj[u][v]`/`_adj[v][u]`, resp. `_succ[u][v]`/`_pred[v][u]`)
    * `events` : `time_to_edge` flattened, in insertion order (the inner dicts are insertion ordered and
                 an event that is deleted and re-inserted moves to the end in both representations)
    * `snaps`  : `snapshots`, insertion ordered, keys distinct -/
structure Graph where
  directed : Bool
  removal : Bool
  gattr : Nat
  nodes : List (Node × Nat)
  edges : List Edge
  events : List Ev
  snaps : List (Int × Nat)
  deriving Repr

def Graph.empty (directed removal : Bool) : Graph :=
  { directed, removal, gattr := 0, nodes := [], edges := [], events := [], snaps := [] }

/-- do `(u,v)` and `(a,b)` name the same pair (unordered on undirected graphs)? -/
def sameKey (directed : Bool) (u v a b : Node) : Bool :=
  (u == a && v == b) || (!directed && u == b && v == a)

def Graph.findEdge (g : Graph) (u v : Node) : Option Edge :=
  g.edges.find? (fun e => sameKey g.directed e.u e.v u v)

def Graph.hasNodeFlat (g : Graph) (n : Node) : Bool :=
  g.nodes.any (fun p => p.1 == n)

def ensureNode (nodes : List (Node × Nat)) (n : Node) : List (Node × Nat) :=
  if nodes.any (fun p => p.1 == n) then nodes else nodes ++ [(n, 0)]

/-- `range(lo, hi + 1)` -/
def irange (lo hi : Int) : List Int :=
  (List.range (hi + 1 - lo).toNat).map (fun (i : Nat) => lo + Int.ofNat i)

/-- `snapshots[t] = snapshots.get(t, 0) + 2` -/
def bump (s : List (Int × Nat)) (t : Int) : List (Int × Nat) :=
  match s with
  | [] => [(t, 2)]
  | (k, c) :: rest => if k == t then (k, c + 2) :: rest else (k, c) :: bump rest t

def bumpAll (s : List (Int × Nat)) (ts : List Int) : List (Int × Nat) :=
  ts.foldl bump s

def lookupSnap (s : List (Int × Nat)) (t : Int) : Nat :=
  match s with
  | [] => 0
  | (k, c) :: rest => if k == t then c else lookupSnap rest t

end Dynetx
