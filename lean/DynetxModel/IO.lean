import DynetxModel.Derive
/-
  readwrite/edgelist.py and readwrite/json_graph/node_link.py at row level, the text layer of the
  parsers (comment stripping, strip/split, field count, int conversion) on `List Char`,
  utils/transform.compact_timeslot and read_ids.
-/
namespace Dynetx

/-- `generate_snapshots`: one row per pair and instant (out-interactions on directed graphs) -/
def Graph.genSnapshots (g : Graph) : List (Node × Node × Int) :=
  let d := if g.directed then g.outInteractionsData else g.interactionsData
  d.flatMap (fun (u, v, tl) => tl.flatMap (fun (a, b) => (irange a b).map (fun s => (u, v, s))))

/-- `parse_snapshots` on converted rows `(u, v, t, e?)` -/
def parseSnapshots (directed : Bool) (rows : List (Node × Node × Int × Option Int)) : Graph × Option Err :=
  (Graph.empty directed true).addMany rows

/-- `generate_interactions`: the stream as rows -/
def Graph.genInteractions (g : Graph) : List Ev := g.stream

/-- one row of `parse_interactions` -/
def Graph.replayRow (g : Graph) (r : Ev) : Graph × Option Err :=
  if r.plus then g.addInteraction r.u r.v (some r.t) none
  else
    -- timestamps = G.adj[u][v]['t']
    match g.findEdge r.u r.v with
    | none => (g, some .key)
    | some ed =>
      match ed.tl with
      | [] => (g, none)
      | (_, b) :: _ => if b < r.t then g.addInteraction r.u r.v (some b) (some r.t) else (g, none)

def Graph.replayRows (g : Graph) : List Ev → Graph × Option Err
  | [] => (g, none)
  | r :: rest =>
    match g.replayRow r with
    | (g', none) => replayRows g' rest
    | (g', some e) => (g', some e)

def parseInteractions (directed : Bool) (rows : List Ev) : Graph × Option Err :=
  (Graph.empty directed true).replayRows rows

/-! ### node-link -/

structure NodeLink where
  directed : Option Bool
  gattr : Nat
  nodes : List (Node × Nat)
  links : List (Node × Node × Int)
  deriving Repr

def Graph.nodeLinkData (g : Graph) : NodeLink :=
  { directed := some g.directed, gattr := g.gattr, nodes := g.nodes, links := g.genSnapshots }

/-- `node_link_graph(data, directed)` -/
def nodeLinkGraph (d : NodeLink) (dflt : Bool) : Graph × Option Err :=
  let directed := d.directed.getD dflt
  let g0 := { Graph.empty directed true with gattr := d.gattr }
  let g1 := d.nodes.foldl (fun g (p : Node × Nat) => (g.addNode p.1).setAttr p.1 p.2) g0
  g1.addMany (d.links.map (fun (u, v, t) => (u, v, t, none)))

/-! ### text layer -/

def isWs (c : Char) : Bool := c == ' ' || c == '\t' || c == '\n' || c == '\r' || c == '\x0b' || c == '\x0c'

def stripL : List Char → List Char
  | [] => []
  | c :: cs => if isWs c then stripL cs else c :: cs

def strip (l : List Char) : List Char := (stripL (stripL l).reverse).reverse

/-- `line.find(comments)` then `line[:p]` for a one-character comment marker -/
def cutComment (cm : Char) : List Char → List Char
  | [] => []
  | c :: cs => if c == cm then [] else c :: cutComment cm cs

/-- `s.split(d)` for a one-character delimiter -/
def splitOnChar (d : Char) : List Char → List (List Char)
  | [] => [[]]
  | c :: cs =>
    match splitOnChar d cs with
    | [] => [[]]          -- unreachable
    | f :: fs => if c == d then [] :: f :: fs else (c :: f) :: fs

/-- `s.split()` : runs of whitespace separate, no empty fields -/
def splitWs (l : List Char) : List (List Char) :=
  let rec go (cur : List Char) : List Char → List (List Char)
    | [] => if cur.isEmpty then [] else [cur.reverse]
    | c :: cs => if isWs c then (if cur.isEmpty then go [] cs else cur.reverse :: go [] cs) else go (c :: cur) cs
  go [] l

/-- fields of one line as the parsers see them; `none` = line skipped before splitting -/
def fieldsOf (cm : Char) (delim : Option Char) (line : List Char) : Option (List (List Char)) :=
  let l := cutComment cm line
  if l.isEmpty then none
  else
    let s := strip l
    some (match delim with
      | none => splitWs s
      | some d => splitOnChar d s)

def digitVal (c : Char) : Option Nat := if c.isDigit then some (c.toNat - '0'.toNat) else none

def natOfDigits : List Char → Option Nat
  | [] => none
  | cs => cs.foldl (fun acc c => match acc, digitVal c with
      | some a, some d => some (a * 10 + d)
      | _, _ => none) (some 0)

/-- `int(s)` on the inputs the correspondence generates: optional sign, ASCII digits, surrounding
    whitespace; anything else is a conversion failure -/
def intOf (s : List Char) : Option Int :=
  match strip s with
  | '-' :: ds => (natOfDigits ds).map (fun n => - (n : Int))
  | '+' :: ds => (natOfDigits ds).map (fun n => (n : Int))
  | ds => (natOfDigits ds).map (fun n => (n : Int))

def nodeOf (s : List Char) : Option Node :=
  match intOf s with
  | some (Int.ofNat n) => some n
  | _ => none

inductive RowS where
  | skip
  | bad
  | row (u v : Node) (t : Int) (e : Option Int)

/-- one line of `parse_snapshots(nodetype=int, timestamptype=int)` -/
def snapRow (cm : Char) (delim : Option Char) (line : List Char) : RowS :=
  match fieldsOf cm delim line with
  | none => .skip
  | some fs =>
    match fs with
    | [u, v, t] =>
      (match nodeOf u, nodeOf v, intOf t with
        | some u, some v, some t => .row u v t none
        | _, _, _ => .bad)
    | u :: v :: t :: e :: _ =>
      (match nodeOf u, nodeOf v, intOf t, intOf e with
        | some u, some v, some t, some e => .row u v t (some e)
        | _, _, _, _ => .bad)
    | _ => .skip

inductive RowI where
  | skip
  | bad
  | row (r : Ev)

/-- one line of `parse_interactions(nodetype=int, timestamptype=int)` -/
def intRow (cm : Char) (delim : Option Char) (line : List Char) : RowI :=
  match fieldsOf cm delim line with
  | none => .skip
  | some [u, v, op, t] =>
    (match nodeOf u, nodeOf v, intOf t with
      | some u, some v, some t => .row { t, u, v, plus := (op == ['+']) }
      | _, _, _ => .bad)
  | some _ => .skip

def parseSnapshotsText (directed : Bool) (cm : Char) (delim : Option Char) (lines : List (List Char)) : Graph × Option Err :=
  let rec go (g : Graph) : List (List Char) → Graph × Option Err
    | [] => (g, none)
    | l :: rest =>
      match snapRow cm delim l with
      | .skip => go g rest
      | .bad => (g, some .type)
      | .row u v t e =>
        match g.addInteraction u v (some t) e with
        | (g', none) => go g' rest
        | (g', some err) => (g', some err)
  go (Graph.empty directed true) lines

def parseInteractionsText (directed : Bool) (cm : Char) (delim : Option Char) (lines : List (List Char)) : Graph × Option Err :=
  let rec go (g : Graph) : List (List Char) → Graph × Option Err
    | [] => (g, none)
    | l :: rest =>
      match intRow cm delim l with
      | .skip => go g rest
      | .bad => (g, some .type)
      | .row r =>
        match g.replayRow r with
        | (g', none) => go g' rest
        | (g', some err) => (g', some err)
  go (Graph.empty directed true) lines

/-! ### compact_timeslot -/

def assocSet (m : List (Int × Nat)) (k : Int) (v : Nat) : List (Int × Nat) :=
  match m with
  | [] => [(k, v)]
  | (k', v') :: rest => if k' == k then (k', v) :: rest else (k', v') :: assocSet rest k v

/-- `{val: idx for idx, val in enumerate(sorted(l))}` -/
def compactTimeslot (l : List Int) : List (Int × Nat) :=
  let tls := l.mergeSort (fun a b => decide (a ≤ b))
  (tls.zipIdx).foldl (fun m (p : Int × Nat) => assocSet m p.1 p.2) []

def rankOf (m : List (Int × Nat)) (t : Int) : Option Nat := (m.find? (fun p => p.1 == t)).map (·.2)

/-- the timestamps `read_ids` collects from snapshot rows (third and fourth field) -/
def snapshotTimestamps (rows : List (Node × Node × Int × Option Int)) : List Int :=
  (rows.flatMap (fun (_, _, t, e) => t :: e.toList)).eraseDups

def interactionTimestamps (rows : List Ev) : List Int := (rows.map (·.t)).eraseDups

/-- `read_ids(lines, ..., interactions)`: the timestamp fields of the rows the parsers accept -/
def readIdsText (interactions : Bool) (cm : Char) (delim : Option Char) (lines : List (List Char)) : Except Err (List (Int × Nat)) :=
  let rec go (acc : List Int) : List (List Char) → Except Err (List Int)
    | [] => .ok acc
    | l :: rest =>
      let fs := strip (cutComment cm l)
      let s := match delim with | none => splitWs fs | some d => splitOnChar d fs
      let fields := if interactions then (if s.length == 4 then (s.drop 3).take 1 else [])
                    else (if s.length ≥ 3 then (s.drop 2).take 2 else [])
      match fields.mapM intOf with
      | none => .error .type
      | some ts => go (acc ++ ts) rest
  match go [] lines with
  | .error e => .error e
  | .ok ts => .ok (compactTimeslot ts.eraseDups)

/-- `read_snapshots(..., keys=True)` / `read_interactions(..., keys=True)` on text lines -/
def readKeysText (interactions directed : Bool) (cm : Char) (delim : Option Char) (lines : List (List Char)) : Graph × Option Err :=
  match readIdsText interactions cm delim lines with
  | .error e => (Graph.empty directed true, some e)
  | .ok keys =>
    let rk (t : Int) : Int := ((rankOf keys t).getD 0 : Nat)
    if interactions then
      let rec goI (g : Graph) : List (List Char) → Graph × Option Err
        | [] => (g, none)
        | l :: rest =>
          match intRow cm delim l with
          | .skip => goI g rest
          | .bad => (g, some .type)
          | .row r =>
            match g.replayRow { r with t := rk r.t } with
            | (g', none) => goI g' rest
            | (g', some err) => (g', some err)
      goI (Graph.empty directed true) lines
    else
      let rec goS (g : Graph) : List (List Char) → Graph × Option Err
        | [] => (g, none)
        | l :: rest =>
          match snapRow cm delim l with
          | .skip => goS g rest
          | .bad => (g, some .type)
          | .row u v t e =>
            match g.addInteraction u v (some (rk t)) (e.map rk) with
            | (g', none) => goS g' rest
            | (g', some err) => (g', some err)
      goS (Graph.empty directed true) lines

end Dynetx
