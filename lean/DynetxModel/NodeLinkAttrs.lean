import DynetxModel.Basic
/-
  readwrite/json_graph/node_link.py, the NODE RECORDS of the node-link format (attribute NAMES included; in
  `IO.lean` the attributes of a node are one opaque token).

  export  `dict(chain(G._node[n].items(), [(id_, n)]))`
          the attributes of `n` in insertion order, then `id_ -> n` with dictionary semantics: a key that is already
          there keeps its position and gets the new value, a new key goes to the end.
  import  `node = d.get(id_, next(c))`  (`next(c)` is an argument: it is evaluated for EVERY record, so a record
          without `id_` is named by its position in `data['nodes']`),
          `nodedata = dict((make_str(k), v) for k, v in d.items() if k != id_)`, `graph.add_node(node, **nodedata)`
          (a node named twice keeps the union of the attributes, later values win).

  Attribute names and values are tokens (`Nat`); the value stored under a key of a record is an attribute value or a
  node id.
-/
namespace Dynetx

/-- what a record stores under a key: an attribute value, or the node id -/
inductive RecVal where
  | attr (v : Nat)
  | node (n : Node)
  deriving Repr, DecidableEq

/-- `G._node[n]`: attribute name ↦ value, insertion-ordered -/
abbrev Attrs := List (Nat × Nat)

/-- one element of `data['nodes']` -/
abbrev Record := List (Nat × RecVal)

/-- `d[k] = v` on an insertion-ordered dictionary -/
def dictSet {β} (d : List (Nat × β)) (k : Nat) (v : β) : List (Nat × β) :=
  if d.any (fun e => e.1 == k) then d.map (fun e => if e.1 == k then (k, v) else e) else d ++ [(k, v)]

/-- `d.get(k)` -/
def dictGet {β} (d : List (Nat × β)) (k : Nat) : Option β := (d.find? (fun e => e.1 == k)).map (·.2)

/-- `dict(pairs)`: later pairs overwrite earlier ones -/
def dictOf {β} (pairs : List (Nat × β)) : List (Nat × β) := pairs.foldl (fun d e => dictSet d e.1 e.2) []

/-- `dict(chain(G._node[n].items(), [(id_, n)]))` -/
def nodeRecord (idKey : Nat) (n : Node) (attrs : Attrs) : Record :=
  dictSet (attrs.map (fun e => (e.1, RecVal.attr e.2))) idKey (.node n)

/-- `[... for n in G]` of `node_link_data` -/
def nodeRecords (idKey : Nat) (nodes : List (Node × Attrs)) : List Record :=
  nodes.map (fun p => nodeRecord idKey p.1 p.2)

/-- one pass of `for d in data['nodes']`: the node and the keyword arguments of `add_node`; `pos` is the value of the
    counter, i.e. the position of the record -/
def recordNode (idKey : Nat) (pos : Nat) (d : Record) : RecVal × Record :=
  ((dictGet d idKey).getD (.node pos), d.filter (fun e => e.1 != idKey))

/-- `graph.add_node(node, **nodedata)` on the node table of the graph that is being built -/
def addNodeRec (tab : List (RecVal × Record)) (node : RecVal) (data : Record) : List (RecVal × Record) :=
  if tab.any (fun e => e.1 == node) then
    tab.map (fun e => if e.1 == node then (node, data.foldl (fun d kv => dictSet d kv.1 kv.2) e.2) else e)
  else tab ++ [(node, data)]

/-- one pass of `for d in data['nodes']` on the node table -/
def importStep (idKey : Nat) (tab : List (RecVal × Record)) (di : Record × Nat) : List (RecVal × Record) :=
  addNodeRec tab (recordNode idKey di.2 di.1).1 (recordNode idKey di.2 di.1).2

/-- the node table after `for d in data['nodes']` -/
def importRecords (idKey : Nat) (recs : List Record) : List (RecVal × Record) :=
  (recs.zipIdx).foldl (importStep idKey) []

end Dynetx
