import DynetxModel.Derive
/-
  Temporal statistics of DynGraph (coverage ... snapshot_density) as exact (numerator, denominator)
  pairs, and the inter-event time distributions of both classes as histograms.
-/
namespace Dynetx

def sumNat (l : List Nat) : Nat := l.foldl (· + ·) 0

/-- `for t in self.snapshots` -/
def Graph.snapKeys (g : Graph) : List Int := g.snaps.map (·.1)

def b2n (b : Bool) : Nat := if b then 1 else 0

/-- `coverage()` = W / (T * V) -/
def Graph.coverage (g : Graph) : Nat × Nat :=
  (sumNat (g.snapKeys.map (fun t => g.numberOfNodes (some t))), g.snaps.length * g.numberOfNodes none)

def Graph.nodeContribution (g : Graph) (u : Node) : Nat × Nat :=
  (sumNat (g.snapKeys.map (fun t => b2n (g.hasNode u (some t)))), g.snaps.length)

/-- `edge_contribution(u, v)`: Σ (end - start + 1) over the stored intervals -/
def Graph.edgeContribution (g : Graph) (u v : Node) : Option (Int × Nat) :=
  (g.findEdge u v).map (fun e => ((e.tl.map (fun s => s.2 - s.1 + 1)).foldl (· + ·) 0, g.snaps.length))

def Graph.nodePresence (g : Graph) (u : Node) : List Int :=
  g.snapKeys.filter (fun t => g.hasNode u (some t))

def Graph.nodePairUniformity (g : Graph) (u v : Node) : Nat × Nat :=
  let pu := g.nodePresence u
  let pv := g.nodePresence v
  ((pu.filter (fun t => pv.contains t)).length, (pu ++ pv.filter (fun t => !pu.contains t)).length)

/-- `itertools.combinations(nodes, 2)` -/
def pairsOf : List Node → List (Node × Node)
  | [] => []
  | u :: rest => rest.map (fun v => (u, v)) ++ pairsOf rest

def Graph.uniformity (g : Graph) : Nat × Nat :=
  let ps := pairsOf g.nodeList
  (sumNat (ps.map (fun (u, v) => sumNat (g.snapKeys.map (fun t => b2n (g.hasNode u (some t) && g.hasNode v (some t)))))),
   sumNat (ps.map (fun (u, v) => sumNat (g.snapKeys.map (fun t => b2n (g.hasNode u (some t) || g.hasNode v (some t)))))))

/-- `density()` -/
def Graph.tdensity (g : Graph) : Nat × Nat :=
  let ps := pairsOf g.nodeList
  (sumNat (ps.map (fun (u, v) => sumNat (g.snapKeys.map (fun t => b2n (g.hasInteraction u v (some t)))))),
   sumNat (ps.map (fun (u, v) => sumNat (g.snapKeys.map (fun t => b2n (g.hasNode u (some t) && g.hasNode v (some t)))))))

def Graph.pairDensity (g : Graph) (u v : Node) : Nat × Nat :=
  (sumNat (g.snapKeys.map (fun t => b2n (g.hasInteraction u v (some t)))),
   sumNat (g.snapKeys.map (fun t => b2n (g.hasNode u (some t) && g.hasNode v (some t)))))

/-- `node_density(u)`: the denominator ranges over all nodes, `u` included (as coded) -/
def Graph.nodeDensity (g : Graph) (u : Node) : Nat × Nat :=
  let pu := g.nodePresence u
  (sumNat (g.snapKeys.map (fun t => if g.hasNode u (some t) then g.degree u (some t) else 0)),
   sumNat (g.nodeList.map (fun v => ((g.nodePresence v).filter (fun t => pu.contains t)).length)))

/-- `snapshot_density(t)` = `nx.density(self.time_slice(t))` -/
def Graph.snapshotDensity (g : Graph) (t : Int) : Except Err (Nat × Nat) :=
  match g.timeSlice t none with
  | .error e => .error e
  | .ok h =>
    let n := h.nodes.length
    let m := h.size none
    .ok (if n ≤ 1 || m == 0 then (0, 1) else (2 * m, n * (n - 1)))

/-! ### inter-event time distributions -/

def histAdd (h : List (Int × Nat)) (k : Int) : List (Int × Nat) :=
  match h with
  | [] => [(k, 1)]
  | (k', c) :: rest => if k' == k then (k', c + 1) :: rest else (k', c) :: histAdd rest k

/-- histogram of the gaps between consecutive elements -/
def gapHist : List Int → List (Int × Nat)
  | a :: b :: rest => histAdd (gapHist (b :: rest)) (b - a)
  | _ => []

def Graph.interEventGlobal (g : Graph) : List (Int × Nat) := gapHist (g.stream.map (·.t))

def Graph.interEventNode (g : Graph) (u : Node) : List (Int × Nat) :=
  gapHist ((g.stream.filter (fun e => e.u == u || e.v == u)).map (·.t))

def Graph.interEventOut (g : Graph) (u : Node) : List (Int × Nat) :=
  gapHist ((g.stream.filter (fun e => e.u == u)).map (·.t))

def Graph.interEventIn (g : Graph) (u : Node) : List (Int × Nat) :=
  gapHist ((g.stream.filter (fun e => e.v == u)).map (·.t))

/-! ### the per-interaction variants `inter_*event_time_distribution(u, v)`: gaps between the boundaries of the
     pair's stored runs (a one-instant run contributes its instant once) -/

def boundaryList (tl : List Span) : List Int :=
  tl.flatMap (fun s => if s.1 != s.2 then [s.1, s.2] else [s.1])

/-- the exposed timeline of the stored arc / pair with exactly these endpoints in this order (`_succ[u][v]`);
    on undirected graphs the pair is symmetric -/
def Graph.arcTimeline (g : Graph) (u v : Node) : Option (List Span) :=
  if g.directed then (g.edges.find? (fun e => e.u == u && e.v == v)).map (fun e => e.tl.reverse)
  else g.timeline u v

/-- `DynGraph.inter_event_time_distribution(u, v)`: `KeyError` when the pair was never added;
    `DynDiGraph.inter_event_time_distribution(u, v)`: the arc `v -> u` if stored, else `u -> v`, else nothing -/
def Graph.interEventPair (g : Graph) (u v : Node) : Except Err (List (Int × Nat)) :=
  if g.directed then
    match g.arcTimeline v u with
    | some tl => .ok (gapHist (boundaryList tl))
    | none =>
      match g.arcTimeline u v with
      | some tl => .ok (gapHist (boundaryList tl))
      | none => .ok []
  else
    match g.timeline u v with
    | some tl => .ok (gapHist (boundaryList tl))
    | none => .error .key

/-- `inter_out_event_time_distribution(u, v)`: the arc `u -> v` -/
def Graph.interEventPairOut (g : Graph) (u v : Node) : List (Int × Nat) :=
  match g.arcTimeline u v with
  | some tl => gapHist (boundaryList tl)
  | none => []

/-- `inter_in_event_time_distribution(u, v)`: the arc `v -> u` -/
def Graph.interEventPairIn (g : Graph) (u v : Node) : List (Int × Nat) :=
  match g.arcTimeline v u with
  | some tl => gapHist (boundaryList tl)
  | none => []

end Dynetx
