import DynetxModel.Basic
/-
  add_interaction (dyngraph.py / dyndigraph.py, identical up to the adjacency used) and the helpers
  built on it.  Statement by statement; `step` returns the state the call left behind.
-/
namespace Dynetx

/-- `__add_event`: record `(u, v, op)` at `t` unless it (or, undirected, its mirror) is there -/
def Graph.addEvent (g : Graph) (t : Int) (u v : Node) (plus : Bool) : Graph :=
  if g.events.any (fun e => e.t == t && sameKey g.directed e.u e.v u v && e.plus == plus) then g
  else { g with events := g.events ++ [{ t, u, v, plus }] }

/-- `__drop_event` -/
def Graph.dropEvent (g : Graph) (t : Int) (u v : Node) (plus : Bool) : Graph :=
  { g with events := g.events.filter (fun e => !(e.t == t && sameKey g.directed e.u e.v u v && e.plus == plus)) }

def Graph.ensureNodes (g : Graph) (u v : Node) : Graph :=
  { g with nodes := ensureNode (ensureNode g.nodes u) v }

def Graph.setTl (g : Graph) (u v : Node) (tl : List Span) : Graph :=
  { g with edges := g.edges.map (fun e => if sameKey g.directed e.u e.v u v then { e with tl := tl } else e) }

def Graph.bumpRange (g : Graph) (lo hi : Int) : Graph :=
  { g with snaps := bumpAll g.snaps (irange lo hi) }

def optAddMinus (g : Graph) (e : Option Int) (u v : Node) : Graph :=
  match e with
  | some e => g.addEvent e u v false
  | none => g

/-- the vanishing time that is actually used: ignored in accumulative mode -/
def Graph.effE (g : Graph) (e : Option Int) : Option Int := if g.removal then e else none

/-- `t[1]`: `e - 1` when a vanishing time is used, else `t`; `none` for an empty span (`e <= t`) -/
def spanEnd (t0 : Int) (eR : Option Int) : Option Int :=
  match eR with
  | some e => if e ≤ t0 then none else some (e - 1)
  | none => some t0

/-- the pair is new: first interval, `'+'@t0`, optional `'-'@e`, counters over the span -/
def Graph.addNew (g : Graph) (u v : Node) (t0 t1 : Int) (eR : Option Int) : Graph :=
  let g := g.ensureNodes u v
  let g := { g with edges := g.edges ++ [({ u := u, v := v, tl := [(t0, t1)] } : Edge)] }
  let g := g.addEvent t0 u v true
  let g := optAddMinus g eR u v
  if g.removal then g.bumpRange t0 t1 else g.bumpRange t0 t0

/-- removal mode, span inside the latest run `[a,b]`: only a closing event that coincides with the
    run's end is (idempotently) recorded -/
def Graph.addCovered (g : Graph) (u v : Node) (t1 b : Int) (eR : Option Int) : Graph :=
  if t1 == b then optAddMinus g eR u v else g

/-- accumulative mode, pair exists -/
def Graph.addAccum (g : Graph) (u v : Node) (t0 a b : Int) (rest : List Span) : Graph :=
  let g := g.ensureNodes u v
  let g := if t0 ≤ b + 1 then g.setTl u v ((a, max b t0) :: rest)
           else g.setTl u v ((t0, t0) :: (a, b) :: rest)
  g.bumpRange t0 t0

/-- removal mode, `t0 <= b + 1 <= t1`: the latest run `[a,b]` becomes `[a,t1]`, its closing event moves -/
def Graph.addExtend (g : Graph) (u v : Node) (t0 t1 a b : Int) (rest : List Span) (eR : Option Int) : Graph :=
  let g := g.ensureNodes u v
  let g := g.dropEvent (b + 1) u v false
  let single := b == a && t0 == b + 1
  let g := g.setTl u v ((a, t1) :: rest)
  let g := match eR with
    | some e => g.addEvent e u v false
    | none => if single then g else g.addEvent (t1 + 1) u v false
  g.bumpRange (b + 1) t1

/-- removal mode, `t0 > b + 1`: a new run -/
def Graph.addAppend (g : Graph) (u v : Node) (t0 t1 a b : Int) (rest : List Span) (eR : Option Int) : Graph :=
  let g := g.ensureNodes u v
  let g := g.setTl u v ((t0, t1) :: (a, b) :: rest)
  let g := g.addEvent t0 u v true
  let g := optAddMinus g eR u v
  g.bumpRange t0 t1

/-- `add_interaction(u, v, t, e)` -/
def Graph.addInteraction (g : Graph) (u v : Node) (t e : Option Int) : Graph × Option Err :=
  match t with
  | none => (g, some .networkx)
  | some t0 =>
    match spanEnd t0 (g.effE e) with
    | none => (g, none)                                   -- empty span: nothing to add
    | some t1 =>
      match g.findEdge u v with
      | none => (g.addNew u v t0 t1 (g.effE e), none)
      | some ed =>
        match ed.tl with
        | [] => (g, some .index)                          -- unreachable: a stored pair has a timeline
        | (a, b) :: rest =>
          if t0 < a then (g, some .value)
          else if g.removal && t1 ≤ b then (g.addCovered u v t1 b (g.effE e), none)
          else if !g.removal then (g.addAccum u v t0 a b rest, none)
          else if t0 ≤ b + 1 then (g.addExtend u v t0 t1 a b rest (g.effE e), none)
          else (g.addAppend u v t0 t1 a b rest (g.effE e), none)

/-- `add_interactions_from(ebunch, t, e)`: stops at the first failing element -/
def Graph.addFromGo (g : Graph) (es : List (Node × Node)) (t e : Option Int) : Graph × Option Err :=
  match es with
  | [] => (g, none)
  | (u, v) :: rest =>
    match g.addInteraction u v t e with
    | (g', none) => addFromGo g' rest t e
    | (g', some err) => (g', some err)

def Graph.addInteractionsFrom (g : Graph) (es : List (Node × Node)) (t e : Option Int) : Graph × Option Err :=
  match t with
  | none => (g, some .networkx)
  | some _ => g.addFromGo es t e

def pathPairs : List Node → List (Node × Node)
  | a :: b :: rest => (a, b) :: pathPairs (b :: rest)
  | _ => []

def starPairs : List Node → List (Node × Node)
  | [] => []
  | c :: rest => rest.map (fun n => (c, n))

/-- `zip(nlist, nlist[1:] + nlist[:1])` -/
def cyclePairs (ns : List Node) : List (Node × Node) :=
  ns.zip (ns.drop 1 ++ ns.take 1)

/- the methods take `(nodes, t)`; the module-level wrappers `dn.add_path(G, nodes, t, **attr)` forward `e=` through `attr` -/
def Graph.addPath (g : Graph) (ns : List Node) (t : Option Int) (e : Option Int := none) := g.addInteractionsFrom (pathPairs ns) t e
def Graph.addStar (g : Graph) (ns : List Node) (t : Option Int) (e : Option Int := none) := g.addInteractionsFrom (starPairs ns) t e
def Graph.addCycle (g : Graph) (ns : List Node) (t : Option Int) (e : Option Int := none) := g.addInteractionsFrom (cyclePairs ns) t e

/-- `add_node(n)` -/
def Graph.addNode (g : Graph) (n : Node) : Graph := { g with nodes := ensureNode g.nodes n }

/-- `update_node_attr(n, a=tok)`: `self._node[n] = data` (creates the key if missing) -/
def Graph.setAttr (g : Graph) (n : Node) (a : Nat) : Graph :=
  if g.nodes.any (fun p => p.1 == n) then
    { g with nodes := g.nodes.map (fun p => if p.1 == n then (n, a) else p) }
  else { g with nodes := g.nodes ++ [(n, a)] }

/-- `clear()`: nodes, interactions, snapshots and the event log are dropped (graph attributes too, as networkx does) -/
def Graph.clear (g : Graph) : Graph :=
  { g with nodes := [], edges := [], events := [], snaps := [], gattr := 0 }

/-- `clear_edges()`: interactions, snapshots and the event log are dropped; nodes stay -/
def Graph.clearEdges (g : Graph) : Graph :=
  { g with edges := [], events := [], snaps := [] }

end Dynetx
