import DynetxModel.Text
/-
  The text layer of the edge-list readers / writers for ARBITRARY node types: `name n` is `str(n)` for the node type
  in use and `dec` is the reader's `nodetype` conversion (`int`, `str`, a lookup table, …).  `Text.lean`/`IO.lean`
  are the instance `name = decimal digits`, `dec = int`.
-/
namespace Dynetx

/-- one line of `parse_snapshots(nodetype=dec, timestamptype=int)` -/
def snapRowWith (dec : List Char → Option Node) (cm : Char) (delim : Option Char) (line : List Char) : RowS :=
  match fieldsOf cm delim line with
  | none => .skip
  | some fs =>
    match fs with
    | [u, v, t] =>
      (match dec u, dec v, intOf t with
        | some u, some v, some t => .row u v t none
        | _, _, _ => .bad)
    | u :: v :: t :: e :: _ =>
      (match dec u, dec v, intOf t, intOf e with
        | some u, some v, some t, some e => .row u v t (some e)
        | _, _, _, _ => .bad)
    | _ => .skip

/-- one line of `parse_interactions(nodetype=dec, timestamptype=int)` -/
def intRowWith (dec : List Char → Option Node) (cm : Char) (delim : Option Char) (line : List Char) : RowI :=
  match fieldsOf cm delim line with
  | none => .skip
  | some [u, v, op, t] =>
    (match dec u, dec v, intOf t with
      | some u, some v, some t => .row { t, u, v, plus := (op == ['+']) }
      | _, _, _ => .bad)
  | some _ => .skip

def parseSnapshotsTextWith (dec : List Char → Option Node) (directed : Bool) (cm : Char) (delim : Option Char)
    (lines : List (List Char)) : Graph × Option Err :=
  let rec go (g : Graph) : List (List Char) → Graph × Option Err
    | [] => (g, none)
    | l :: rest =>
      match snapRowWith dec cm delim l with
      | .skip => go g rest
      | .bad => (g, some .type)
      | .row u v t e =>
        match g.addInteraction u v (some t) e with
        | (g', none) => go g' rest
        | (g', some err) => (g', some err)
  go (Graph.empty directed true) lines

def parseInteractionsTextWith (dec : List Char → Option Node) (directed : Bool) (cm : Char) (delim : Option Char)
    (lines : List (List Char)) : Graph × Option Err :=
  let rec go (g : Graph) : List (List Char) → Graph × Option Err
    | [] => (g, none)
    | l :: rest =>
      match intRowWith dec cm delim l with
      | .skip => go g rest
      | .bad => (g, some .type)
      | .row r =>
        match g.replayRow r with
        | (g', none) => go g' rest
        | (g', some err) => (g', some err)
  go (Graph.empty directed true) lines

/-- the lines of `generate_snapshots(G, delimiter)` when `str(n) = name n` -/
def Graph.snapshotLinesWith (name : Node → List Char) (g : Graph) (d : Char) : List (List Char) :=
  g.genSnapshots.map (fun (u, v, t) => joinFields d [name u, name v, intDigits t])

/-- the lines of `generate_interactions(G, delimiter)` when `str(n) = name n` -/
def Graph.interactionLinesWith (name : Node → List Char) (g : Graph) (d : Char) : List (List Char) :=
  g.genInteractions.map (fun ev =>
    joinFields d [name ev.u, name ev.v, [if ev.plus then '+' else '-'], intDigits ev.t])

end Dynetx
