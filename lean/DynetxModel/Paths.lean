import DynetxModel.Query
/-
  algorithms/paths.py: temporal_dag, time_respecting_paths, all_time_respecting_paths, annotate_paths.
  An occurrence "node_time" is the pair (node, time); the bare root (the key `u` of `active`) is
  handled apart, exactly as the `isinstance(an, node_type)` branch does.
-/
namespace Dynetx

abbrev Occ := Node × Int
abbrev Hop := Node × Node × Int
abbrev TPath := List Hop

structure Dag where
  edges : List (Occ × Occ)
  sources : List Occ
  targets : List Occ
  active : List Occ
  deriving Repr

def Dag.empty : Dag := { edges := [], sources := [], targets := [], active := [] }

def insertNew {α} [BEq α] (l : List α) (x : α) : List α := if l.contains x then l else l ++ [x]

def minList : List Int → Option Int
  | [] => none
  | x :: xs => match minList xs with
    | none => some x
    | some m => some (if x ≤ m then x else m)

/-- targets found from an active node whose neighbours at `tid` are `nb` -/
def newTargets (v : Option Node) (nb : List Node) (tid : Int) : List Occ :=
  match v with
  | some v => if nb.contains v then [(v, tid)] else []
  | none => nb.map (fun n => (n, tid))

/-- one iteration of `for tid in ids` -/
def dagStep (g : Graph) (u : Node) (v : Option Node) (st : Dag) (tid : Int) : Dag :=
  -- the bare root comes first in `active`
  let nb := g.neighbors u (some tid)
  let targets := (newTargets v nb tid).foldl insertNew st.targets
  let sources := if nb.isEmpty then st.sources else insertNew st.sources (u, tid)
  let edges := (nb.map (fun n => ((u, tid), (n, tid)))).foldl insertNew st.edges
  let toAdd := nb.map (fun n => (n, tid))
  -- then every active occurrence
  let r := st.active.foldl (fun (acc : List (Occ × Occ) × List Occ × List Occ × List Occ) (an : Occ) =>
      let (edges, targets, toAdd, toRemove) := acc
      let nb := g.neighbors an.1 (some tid)
      let targets := (newTargets v nb tid).foldl insertNew targets
      let toRemove := if nb.isEmpty then toRemove ++ [an] else toRemove
      let edges := (nb.map (fun n => (an, (n, tid)))).foldl insertNew edges
      (edges, targets, toAdd ++ nb.map (fun n => (n, tid)), toRemove)) (edges, targets, toAdd, [])
  let (edges, targets, toAdd, toRemove) := r
  let active := (toAdd.foldl insertNew st.active).filter (fun a => !toRemove.contains a)
  { edges, sources, targets, active }

/-- `temporal_dag(G, u, v, start, end)` -/
def Graph.temporalDag (g : Graph) (u : Node) (v : Option Node) (start stop : Option Int) : Except Err Dag :=
  let ids := g.ids
  match minList ids, maxList ids with
  | some lo, some hi =>
    let stop := stop.getD hi
    let start := start.getD lo
    if start < lo || start > stop || stop > hi || start > hi then .error .value
    else
      let w := ids.filter (fun i => decide (start ≤ i) && decide (i ≤ stop))
      .ok (w.foldl (dagStep g u v) Dag.empty)
  | _, _ => .ok Dag.empty

def Dag.nodes (d : Dag) : List Occ :=
  (d.edges.flatMap (fun e => [e.1, e.2])).foldl insertNew []

/-- assumed behaviour of `networkx.all_simple_paths(DAG, s, t)` (networkx 3.x): the one-node path when
    `s = t`; otherwise every path without repeated node that ends at its first arrival in `t` -/
def simplePathsGo (edges : List (Occ × Occ)) (target : Occ) : Nat → Occ → List Occ → List (List Occ)
  | 0, _, _ => []
  | fuel + 1, cur, visited =>
    if cur == target then [[cur]]
    else
      let nexts := (edges.filter (fun e => e.1 == cur)).map (·.2)
      (nexts.filter (fun n => !visited.contains n && n != cur)).flatMap (fun n =>
        (simplePathsGo edges target fuel n (cur :: visited)).map (fun p => cur :: p))

def simplePaths (d : Dag) (s t : Occ) : List (List Occ) :=
  simplePathsGo d.edges t (d.nodes.length + 1) s []

def hopsOf : List Occ → TPath
  | a :: b :: rest => (a.1, b.1, b.2) :: hopsOf (b :: rest)
  | _ => []

/-- the "ping pong" check: no hop reverses the previous one, no two consecutive hops at one instant -/
def pingPongOk : TPath → Bool
  | a :: b :: rest => !((b.1 == a.2.1 && b.2.1 == a.1) || b.2.2 == a.2.2) && pingPongOk (b :: rest)
  | _ => true

def pathKey (p : TPath) : Node × Node :=
  match p.head?, p.getLast? with
  | some a, some b => (a.1, b.2.1)
  | _, _ => (0, 0)

def groupPaths (ps : List TPath) : List ((Node × Node) × List TPath) :=
  ps.foldl (fun acc p =>
    let k := pathKey p
    if acc.any (fun e => e.1 == k) then acc.map (fun e => if e.1 == k then (e.1, e.2 ++ [p]) else e)
    else acc ++ [(k, [p])]) []

/-- `time_respecting_paths(G, u, v, start, end)` with `sample = 1` -/
def Graph.timeRespectingPaths (g : Graph) (u : Node) (v : Option Node) (start stop : Option Int) :
    Except Err (List ((Node × Node) × List TPath)) :=
  if !g.hasNode u start then .ok []
  else
    match g.temporalDag u v start stop with
    | .error e => .error e
    | .ok d =>
      let pairs := d.sources.flatMap (fun s => d.targets.map (fun t => (s, t)))
      let raw := pairs.flatMap (fun (s, t) => (simplePaths d s t).map hopsOf)
      let kept := raw.filter (fun pt => pingPongOk pt && !pt.isEmpty)
      .ok (groupPaths (kept.foldl insertNew []))

/-- `time_respecting_paths(G, u, v, start, end, sample)` with `sample = num/den < 1`:
    `to_sample = int(len(pairs) * sample)` and `numpy.random.choice(len(pairs), size=to_sample, replace=False)`
    (= the first `to_sample` entries of a random permutation of the indices; the permutation is the parameter
    `perm` restricted to the indices that exist); the selected pairs are then enumerated exactly as with `sample = 1`. -/
def Graph.timeRespectingPathsSample (g : Graph) (u : Node) (v : Option Node) (start stop : Option Int)
    (num den : Nat) (perm : List Nat) : Except Err (List ((Node × Node) × List TPath)) :=
  if !g.hasNode u start then .ok []
  else
    match g.temporalDag u v start stop with
    | .error e => .error e
    | .ok d =>
      let pairs := d.sources.flatMap (fun s => d.targets.map (fun t => (s, t)))
      let toSample := pairs.length * num / den
      let chosen := ((perm.filter (fun i => decide (i < pairs.length))).take toSample).filterMap (fun i => pairs[i]?)
      let raw := chosen.flatMap (fun (s, t) => (simplePaths d s t).map hopsOf)
      let kept := raw.filter (fun pt => pingPongOk pt && !pt.isEmpty)
      .ok (groupPaths (kept.foldl insertNew []))

/-- `all_time_respecting_paths(G, start, end, min_t=m)` -/
def Graph.allTimeRespectingPaths (g : Graph) (start stop minT : Option Int) :
    Except Err (List ((Node × Node) × List TPath)) :=
  (g.nodesAt minT).foldlM (fun (res : List ((Node × Node) × List TPath)) u =>
    match g.timeRespectingPaths u none start stop with
    | .error e => .error e
    | .ok paths =>
      .ok (paths.foldl (fun (res : List ((Node × Node) × List TPath)) (kp : (Node × Node) × List TPath) =>
        let k := (u, kp.1.2)
        if res.any (fun e => e.1 == k) then res.map (fun e => if e.1 == k then (k, kp.2) else e)
        else res ++ [(k, kp.2)]) res)) []

/-! ### annotate_paths -/

def pathLength (p : TPath) : Nat := p.length

def lastTime (p : TPath) : Int := (p.getLast?.map (·.2.2)).getD 0
def firstTime (p : TPath) : Int := (p.head?.map (·.2.2)).getD 0

def pathDuration (p : TPath) : Int := lastTime p - firstTime p

/-- running minimum with the list of elements attaining it, as in the single pass of `annotate_paths` -/
def trackMin {κ} (lt : κ → κ → Bool) (eq : κ → κ → Bool) (key : TPath → κ)
    (st : Option κ × List TPath) (p : TPath) : Option κ × List TPath :=
  match st.1 with
  | none => (some (key p), [p])
  | some m => if lt (key p) m then (some (key p), [p]) else if eq (key p) m then (some m, st.2 ++ [p]) else st

structure Annot where
  shortest : List TPath
  fastest : List TPath
  foremost : List TPath
  fastestShortest : List TPath
  shortestFastest : List TPath
  deriving Repr

/-- `{tuple(p): f(p) for p in l}` followed by the keys attaining `min(values)` -/
def secondary (f : TPath → Int) (l : List TPath) : List TPath :=
  let keys := l.foldl insertNew []
  match minList (keys.map f) with
  | none => []
  | some m => keys.filter (fun p => f p == m)

def annotatePaths (paths : List TPath) : Annot :=
  let sh := paths.foldl (trackMin (fun (a b : Nat) => decide (a < b)) (fun a b => a == b) pathLength) (none, [])
  let fa := paths.foldl (trackMin (fun (a b : Int) => decide (a < b)) (fun a b => a == b) pathDuration) (none, [])
  let fo := paths.foldl (trackMin (fun (a b : Int) => decide (a < b)) (fun a b => a == b) lastTime) (none, [])
  { shortest := sh.2, fastest := fa.2, foremost := fo.2,
    fastestShortest := secondary pathDuration sh.2,
    shortestFastest := secondary (fun p => (pathLength p : Int)) fa.2 }

end Dynetx
