import DynetxModel.Graph
/-
  Presence test and the query layer (C02, C04, C05 observables).
-/
namespace Dynetx

/-- `temporal_snapshots_ids()`: `sorted(self.snapshots.keys())` -/
def Graph.ids (g : Graph) : List Int := (g.snaps.map (·.1)).mergeSort (fun a b => decide (a ≤ b))

def maxList : List Int → Option Int
  | [] => none
  | x :: xs => match maxList xs with
    | none => some x
    | some m => some (if x ≤ m then m else x)

def spanMem (s : Span) (t : Int) : Bool := decide (s.1 ≤ t) && decide (t ≤ s.2)

/-- `__presence_test` on a timeline kept latest-first -/
def Graph.presenceTest (g : Graph) (tl : List Span) (t : Int) : Bool :=
  match tl, tl.getLast? with
  | last :: _, some first =>
    if g.removal then
      -- spans[0][0] <= t <= spans[-1][1], then membership in some interval
      decide (first.1 ≤ t) && decide (t ≤ last.2) && tl.any (fun s => spanMem s t)
    else
      -- spans[0][0] <= t <= max(self.temporal_snapshots_ids())
      match maxList (g.snaps.map (·.1)) with
      | some m => decide (first.1 ≤ t) && decide (t ≤ m)
      | none => false
  | _, _ => false

/-- `has_interaction(u, v, t)` -/
def Graph.hasInteraction (g : Graph) (u v : Node) (t : Option Int) : Bool :=
  match g.findEdge u v with
  | none => false
  | some e => match t with
    | none => true
    | some t => g.presenceTest e.tl t

/-- successors of `n` in adjacency order (`_adj[n]` / `_succ[n]`) -/
def Graph.succs (g : Graph) (n : Node) : List Node :=
  g.edges.filterMap (fun e => if e.u == n then some e.v else if !g.directed && e.v == n then some e.u else none)

/-- `_pred[n]` (directed graphs) -/
def Graph.preds (g : Graph) (n : Node) : List Node :=
  g.edges.filterMap (fun e => if e.v == n then some e.u else none)

def Graph.present (g : Graph) (u v : Node) (t : Option Int) : Bool :=
  match t with
  | none => true
  | some _ => g.hasInteraction u v t

/-- `neighbors(n, t)` / `successors(n, t)` -/
def Graph.neighbors (g : Graph) (n : Node) (t : Option Int) : List Node :=
  (g.succs n).filter (fun m => g.present n m t)

def Graph.predecessors (g : Graph) (n : Node) (t : Option Int) : List Node :=
  (g.preds n).filter (fun m => g.present m n t)

def Graph.nodeList (g : Graph) : List Node := g.nodes.map (·.1)

/-- `nbunch_iter`: the members of `nbunch` that are nodes; `none` = all nodes -/
def Graph.nbunch (g : Graph) (nb : Option (List Node)) : List Node :=
  match nb with
  | none => g.nodeList
  | some l => l.filter (fun n => g.hasNodeFlat n)

def Graph.outDegree (g : Graph) (n : Node) (t : Option Int) : Nat := (g.neighbors n t).length
def Graph.inDegree (g : Graph) (n : Node) (t : Option Int) : Nat := (g.predecessors n t).length

/-- `degree_iter`: undirected = `len(adj[n])` (a self-loop counts once), directed = in + out -/
def Graph.degree (g : Graph) (n : Node) (t : Option Int) : Nat :=
  if g.directed then g.outDegree n t + g.inDegree n t else g.outDegree n t

/-- `interactions_iter(nbunch, t)` with the `seen` de-duplication, both classes -/
def Graph.interactionsGo (g : Graph) (t : Option Int) : List Node → List Node → List (Node × Node)
  | [], _ => []
  | n :: rest, seen =>
    ((g.succs n).filter (fun m => !seen.contains m && g.present n m t)).map (fun m => (n, m))
      ++ interactionsGo g t rest (n :: seen)

def Graph.interactions (g : Graph) (nb : Option (List Node)) (t : Option Int) : List (Node × Node) :=
  g.interactionsGo t (g.nbunch nb) []

/-- `out_interactions_iter` -/
def Graph.outInteractions (g : Graph) (nb : Option (List Node)) (t : Option Int) : List (Node × Node) :=
  (g.nbunch nb).flatMap (fun n => (g.neighbors n t).map (fun m => (n, m)))

/-- `in_interactions_iter` -/
def Graph.inInteractions (g : Graph) (nb : Option (List Node)) (t : Option Int) : List (Node × Node) :=
  (g.nbunch nb).flatMap (fun n => (g.predecessors n t).map (fun m => (m, n)))

def Graph.degreeSum (g : Graph) (t : Option Int) : Nat :=
  (g.nodeList.map (fun n => g.degree n t)).foldl (· + ·) 0

/-- `size(t) = int(sum(degree) / 2)` -/
def Graph.size (g : Graph) (t : Option Int) : Nat := g.degreeSum t / 2

/-- `nodes(t)` -/
def Graph.nodesAt (g : Graph) (t : Option Int) : List Node :=
  match t with
  | none => g.nodeList
  | some _ => g.nodeList.filter (fun n => g.degree n t > 0)

def Graph.numberOfNodes (g : Graph) (t : Option Int) : Nat := (g.nodesAt t).length

/-- `has_node(n, t)` -/
def Graph.hasNode (g : Graph) (n : Node) (t : Option Int) : Bool :=
  match t with
  | none => g.hasNodeFlat n
  | some _ => g.hasNodeFlat n && g.degree n t > 0

/-- `number_of_interactions(u, v, t)` -/
def Graph.numberOfInteractions2 (g : Graph) (u v : Node) (t : Option Int) : Nat :=
  if g.hasInteraction u v t then 1 else 0

/-- `dn.density(G, t)` as a pair (numerator, denominator); the functional form passes `t` in the place of
    `u`, so with a snapshot id the interaction count is `None` and the result 0 (known finding D15) -/
def Graph.density (g : Graph) (t : Option Int) : Nat × Nat :=
  match t with
  | some _ => (0, 1)
  | none =>
    let n := g.numberOfNodes none
    let m := g.size none
    if m == 0 || n ≤ 1 then (0, 1) else (if g.directed then (m, n * (n - 1)) else (2 * m, n * (n - 1)))

def countEq (l : List Nat) (x : Nat) : Nat := (l.filter (· == x)).length

def maxNat : List Nat → Nat
  | [] => 0
  | x :: xs => max x (maxNat xs)

/-- `degree_histogram(G, t)` -/
def Graph.degreeHistogram (g : Graph) (t : Option Int) : List Nat :=
  let ds := g.nodeList.map (fun n => g.degree n t)
  if ds.isEmpty then [] else (List.range (maxNat ds + 1)).map (countEq ds)

/-- `all_neighbors`: predecessors then successors on directed graphs -/
def Graph.allNeighbors (g : Graph) (n : Node) (t : Option Int) : List Node :=
  if g.directed then g.predecessors n t ++ g.neighbors n t else g.neighbors n t

def Graph.nonNeighbors (g : Graph) (n : Node) (t : Option Int) : List Node :=
  g.nodeList.filter (fun m => m != n && !(g.allNeighbors n t).contains m)

def nonIntGo (adj : Node → List Node) : List Node → List (Node × Node)
  | [] => []
  | u :: rest => (rest.filter (fun v => !(adj u).contains v)).map (fun v => (u, v)) ++ nonIntGo adj rest

/-- `non_interactions(G, t)` as a set of unordered pairs (the Python pops nodes from a set) -/
def Graph.nonInteractions (g : Graph) (t : Option Int) : List (Node × Node) :=
  nonIntGo (fun u => g.allNeighbors u t) g.nodeList

def Graph.isEmpty (g : Graph) : Bool := g.edges.isEmpty

/-- `get_node_snapshots(n)` -/
def Graph.nodeSnapshots (g : Graph) (n : Node) : List Int :=
  g.ids.filter (fun t => g.hasNode n (some t))

/-- `interactions_per_snapshots(t)` times two (the stored counter) -/
def Graph.ips2 (g : Graph) (t : Int) : Nat := lookupSnap g.snaps t

/-- `avg_number_of_nodes()` = (Σ number_of_nodes(t) over the ids, number of ids) -/
def Graph.avgNumberOfNodes (g : Graph) : Nat × Nat :=
  ((g.ids.map (fun t => g.numberOfNodes (some t))).foldl (· + ·) 0, g.snaps.length)

/-- `stream_interactions()`: ascending time, insertion order inside one instant -/
def Graph.stream (g : Graph) : List Ev := g.events.mergeSort (fun a b => decide (a.t ≤ b.t))

/-- the exposed timeline of a pair (oldest run first) -/
def Graph.timeline (g : Graph) (u v : Node) : Option (List Span) :=
  (g.findEdge u v).map (fun e => e.tl.reverse)

end Dynetx
