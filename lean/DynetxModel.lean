import DynetxModel.Basic
import DynetxModel.Graph
import DynetxModel.Query
import DynetxModel.Derive
import DynetxModel.IO
import DynetxModel.Paths
import DynetxModel.Stats
import DynetxModel.Conformity
