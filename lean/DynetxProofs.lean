-- theorems about the model; see DynetxProofs/Properties.lean for the property statements
import DynetxProofs.Lemmas.Timeline
import DynetxProofs.Lemmas.Fields
import DynetxProofs.Lemmas.Step
import DynetxProofs.Lemmas.WF
import DynetxProofs.Lemmas.Core
import DynetxProofs.Spec
import DynetxProofs.Lemmas.History
import DynetxProofs.Lemmas.HistoryMore
import DynetxProofs.Lemmas.Snaps
import DynetxProofs.Lemmas.Counts
import DynetxProofs.C18
import DynetxProofs.Lemmas.CountsHistory
import DynetxProofs.C14
import DynetxProofs.Properties
