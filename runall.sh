#!/bin/bash
# dev helper: run every check of a tier, print exit codes and wall time
cd "$(dirname "$0")"
tier=${1:-quick}
for i in $(seq -w 1 20); do
  p=C$i
  s=$(date +%s)
  out=$(./check.sh $p $tier 2>&1; echo "__rc=$?")
  rc=$(echo "$out" | sed -n 's/^__rc=//p')
  echo "$p rc=$rc $(( $(date +%s) - s ))s :: $(echo "$out" | grep -E 'VIOLATION|KNOWN|INTERNAL' | cut -c1-120 | tr '\n' '|')"
done
